"""C07 — parallel execution is unobservable.  Plug-in for ./check; see DESIGN.md section 6/C07.

PROOF part: Properties/C07.v (schedule independence of the modelled rayon fragment; its hypotheses
re-extracted from the source by tools/gen_parsites.py and re-proved on every run).
EXPLORATION part (testing, not proof): bit-for-bit comparison of the five functions across thread
pool sizes / repetitions / a serial reference, concurrent read-only hammering, and a probe that feeds
the schedule rayon really used to the Coq model."""
import struct

import gen_parsites
import gv
import props

# regenerate the source-derived hypotheses before the proof gate re-proves C07_par_sites_ok
_OUT, _CHANGED, PAR_INFO = gen_parsites.regenerate()

POOLS = [1, 2, 3, 4, 8, 16]
FN_NAMES = {1: "all_pairs", 2: "multi_source", 3: "get_all_shortest_paths_involving",
            4: "betweenness_centrality", 5: "closeness_centrality"}


def bits(x):
    return "x" + struct.pack(">d", x).hex()


def site_problems(info):
    """readable form of what C07_par_sites_ok will reject (the theorem is the judge; this is the diagnosis)"""
    out = []
    if info.get("error"):
        out.append("extractor: " + info["error"])
    for r in info.get("sites", []):
        why = []
        if r["entry"] not in ("into_par_iter", "par_iter"):
            why.append("entry %s" % r["entry"])
        if r["src"][0] not in ("range", "vec"):
            why.append("source not indexed (%s: %s)" % r["src"])
        if any(a != "map" for a in r["adaptors"]):
            why.append("adaptors %s" % r["adaptors"])
        if r["sink"][0] not in ("collect_vec", "collect_result_vec"):
            why.append("sink %s %s" % r["sink"])
        if not r["post"] or any(p not in ("seq_for", "seq_iter", "returned") for p in r["post"]):
            why.append("result consumed by %s" % r["post"])
        if r["shared"]:
            why.append("shared state in a closure: %s" % r["shared"])
        if why:
            out.append("rayon call site %s:%s (%s) is outside the modelled fragment: %s"
                       % (r["file"], r["line"], r["fn"], "; ".join(why)))
    fns = [r["fn"] for r in info.get("sites", [])]
    want = ["betweenness_centrality", "closeness_centrality", "all_pairs", "multi_source"]
    if fns != want:
        out.append("functions with a rayon call site are %s, expected %s" % (fns, want))
    # which region each function uses (C07_par_site_shapes): the centrality loops collect into a Vec, all_pairs /
    # multi_source collect Result items into Result<Vec<_>, Error> (repair of F22) - what Model/ParFns.v transcribes
    want_sink = {"betweenness_centrality": "collect_vec", "closeness_centrality": "collect_vec",
                 "all_pairs": "collect_result_vec", "multi_source": "collect_result_vec"}
    for r in info.get("sites", []):
        if r["fn"] in want_sink and r["sink"][0] in ("collect_vec", "collect_result_vec") \
                and r["sink"][0] != want_sink[r["fn"]]:
            out.append("rayon call site %s:%s (%s) collects with `%s %s` but Model/ParFns.v transcribes `%s` for it"
                       % (r["file"], r["line"], r["fn"], r["sink"][0], r["sink"][1], want_sink[r["fn"]]))
    if info.get("unsafe"):
        out.append("unsafe code in the crate: %s" % info["unsafe"][:5])
    if info.get("interior"):
        out.append("interior mutability in the crate: %s" % info["interior"][:5])
    if any(v > 20 for (_, v) in info.get("thresholds", [])):
        out.append("a parallel-path threshold exceeds 20: %s" % info["thresholds"])
    return out


class ParProp(props.BaseProp):
    id = "C07"
    run_module = "Run.RunPar"
    harness_mode = "par"
    profiles = ["debug", "release"]
    quick_n, thorough_n = 150, 900
    shards = 8
    diff_kind = "counterexample"
    trusted_extra = [
        "rayon's implementation of the indexed collect, work stealing and memory ordering are NOT verified: "
        "modelled by Model/Par.v (schedule = order of execution of the work items) and Model/ParFns.v (failing items: "
        "rayon::join re-raises its first closure's panic; collect into Result keeps the error of the erring item that ran "
        "first) and probed per run",
        "tools/gen_parsites.py (tokenizer-level scan of the crate for rayon call sites, unsafe and interior mutability)",
        "that the closures passed to rayon are the pure functions of (&Graph, item) transcribed in Model/ParFns.v is "
        "supported by the source scan, the C04/C05/C06 correspondence of the per-source models and bit-for-bit "
        "testing, not proved",
    ]
    rule = ("graph cases: random directed / undirected graphs with threshold+1 .. 60 nodes (threshold = the extracted "
            "`number_of_nodes() > K`, currently 20), node names inserted in shuffled order, edge density 1.2-4 edges "
            "per node, weights unweighted / dyadic (k/8) / non-dyadic (0.1*k, so that the order of a float sum would "
            "show) / small integers with many ties; every eighth graph (separate PRNG stream) is re-weighted with "
            "integers 1..3 of which about one in 12 is NEGATED, and only the three dijkstra.rs functions are called on "
            "it, weighted: the per-source search returns Err(ContradictoryPaths) from some sources, and all_pairs / "
            "multi_source must return that Err (F22: they panicked) identically under every pool size and equal to "
            "the serial per-source reference, involving the empty vector; on each (other) graph all_pairs (random cutoff / first_only / with_paths), "
            "multi_source (random source subset), get_all_shortest_paths_involving, betweenness_centrality and "
            "closeness_centrality (random flags) are each run inside ThreadPool::install for pool sizes "
            "1,2,3,4,8,16 x 2 repetitions, once on the global pool, and against a serial reference assembled from "
            "per-source single_source calls; all results compared bit for bit (f64::to_bits, path lists); every "
            "fourth graph is additionally hammered by 8 reader threads while the parallel functions run. probe "
            "cases: the schedule rayon really used for an indexed map/collect is recorded and fed to the Coq model "
            "(Run/RunPar.v), which must reproduce the collected vector and accept the schedule as a permutation; the "
            "same probe then runs the region with FAILING items (item i panics with payload i iff xs[i] is divisible "
            "by 7, low indices made slow) and the re-raised payload must be the lowest failing index, which is what "
            "the model's region (gather_par under the reversed schedule, run_plan on a right-first plan) reports; and "
            "with items that RETURN Err(i) (same rule), collected into Result<Vec<_>, E> like all_pairs / multi_source: the "
            "index whose error rayon kept is reported and must be admitted by the model's gather_result_par (it is an erring "
            "item and the region returns an error when that item runs first; Ok iff no item errs, with the vector map f "
            "xs), the serial collect must keep the lowest erring index (observations 64 / 65). "
            "non-trivial = graph above the threshold whose result has > 100 words, or a probe with >= 21 items; "
            "distinct = distinct case text. This part is exploration (testing), not proof.")

    def threshold(self):
        ts = [v for (_, v) in PAR_INFO.get("thresholds", [])]
        return max(ts) if ts else 20

    # ------------------------------------------------------------------ generation
    def gen_graph(self, r, idx, big, neg=None):
        thr = self.threshold()
        n = thr + 1 + r.below(max(1, 60 - thr)) if not big else 61 + r.below(60)
        if r.chance(1, 12):
            n = thr + 1          # the boundary: smallest graph on the parallel path
        directed = r.chance(1, 2)
        names = r.shuffle(list(range(n)))
        wmode = r.pick(["none", "dyadic", "decimal", "decimal", "ties"])
        m = int(n * (1.2 + r.below(280) / 100.0))
        edges, seen = [], set()
        # a spanning chain so that most pairs are connected, then random edges
        for i in range(1, n):
            if r.chance(9, 10):
                edges.append((names[r.below(i)], names[i]))
        for _ in range(m):
            u, v = r.below(n), r.below(n)
            if u != v:
                edges.append((u, v))
        out = []
        for (u, v) in edges:
            key = (u, v) if directed else (min(u, v), max(u, v))
            if key in seen:
                continue
            seen.add(key)
            if wmode == "none":
                w = float("nan")
            elif wmode == "dyadic":
                w = (1 + r.below(64)) / 8.0
            elif wmode == "decimal":
                w = 0.1 * (1 + r.below(30))
            else:
                w = float(1 + r.below(3))
            out.append((u, v, bits(w)))
        weighted = wmode != "none"
        if neg is not None:
            # NEGATIVE-WEIGHT VARIANT (separate PRNG stream `neg`; the graph and the main stream stay as they were):
            # integer weights 1..3, about one edge in 12 negated.  The per-source search then returns
            # Err(ContradictoryPaths) from some sources; since the repair of F22 all_pairs / multi_source return
            # that Err (they panicked) - under every pool size, equal to the serial per-source reference; involving
            # returns the empty vector.  The centrality functions are not called on these graphs.
            out_neg = [(u, v, bits(float((1 + neg.below(3)) * (-1 if neg.chance(1, 12) else 1)))) for (u, v, _) in out]
            k = 1 + neg.below(n)
            srcs = [neg.below(n) for _ in range(k)]
            calls_neg = ["all_pairs 1 0 %s 0 1" % bits(0.0), "all_pairs 1 0 %s 0 0" % bits(0.0),
                         "all_pairs 1 1 %s %d 1" % (bits(2.0 + neg.below(6)), int(neg.chance(1, 2))),
                         "multi_source 1 %d %d %s" % (int(neg.chance(1, 3)), int(neg.chance(2, 3)),
                                                      " ".join(map(str, srcs))),
                         "multi_source 1 0 1 %d" % neg.below(n),
                         # two different failures at once (a search that may hit ContradictoryPaths, then an absent
                         # name): the error reported must not depend on the pool size
                         "multi_source 1 1 1 %s %d" % (" ".join(str(neg.below(n)) for _ in range(3)), n + 5),
                         "involving 1 %d" % neg.below(n)]
        calls = []
        wflag = lambda: int(weighted and r.chance(3, 4))  # noqa: E731
        cutoff = r.chance(1, 4)
        calls.append("all_pairs %d %d %s %d %d" % (wflag(), int(cutoff), bits(2.5 + r.below(40) / 8.0),
                                                   int(r.chance(1, 3)), int(r.chance(2, 3))))
        calls.append("all_pairs %d 0 %s 0 0" % (wflag(), bits(0.0)))          # the dijkstra_basic path
        # a target (the search stops early at it: per-source state must not leak between work items)
        calls.append("all_pairs %d 0 %s %d %d 1 %d" % (wflag(), bits(0.0), int(r.chance(1, 3)), int(r.chance(2, 3)),
                                                      r.below(n)))
        k = 1 + r.below(n)
        srcs = [r.below(n) for _ in range(k)]
        calls.append("multi_source %d %d %d %s" % (wflag(), int(r.chance(1, 3)), int(r.chance(2, 3)),
                                                   " ".join(map(str, srcs))))
        # a target: the sources are searched independently (no state carried from one source to the next)
        calls.append("multi_source %d %d %d %s -1 %d" % (wflag(), int(r.chance(1, 3)), int(r.chance(2, 3)),
                                                         " ".join(str(r.below(n)) for _ in range(3 + r.below(3))), r.below(n)))
        calls.append("involving %d %d" % (wflag(), r.below(n)))
        calls.append("betweenness %d %d" % (wflag(), int(r.chance(1, 2))))
        calls.append("betweenness %d %d" % (int(weighted), int(r.chance(1, 2))))
        calls.append("closeness %d %d" % (wflag(), int(r.chance(1, 2))))
        calls.append("closeness %d %d" % (int(weighted), int(r.chance(1, 2))))
        if idx % 4 == 0:
            calls.append("hammer %d %d" % (int(weighted), 60))
        if neg is not None:
            # (the main stream has been consumed exactly as without the variant)
            out, calls, wmode = out_neg, calls_neg, "neg"
            # a second component without negative weights: a path a - b - c (both directions) on three fresh names. The
            # searches from the first component may fail (ContradictoryPaths); what `involving` answers for b must
            # then be the same on the serial route and under every pool
            a = n
            names = names + [a, a + 1, a + 2]
            n = n + 3
            out = out + [(a, a + 1, bits(1.0)), (a + 1, a + 2, bits(1.0))] + \
                ([(a + 1, a, bits(1.0)), (a + 2, a + 1, bits(1.0))] if directed else [])
            calls = calls + ["involving 1 %d" % (a + 1), "involving 0 %d" % (a + 1)]
        return {"kind": "graph", "directed": directed, "n": n, "names": names, "edges": out, "calls": calls,
                "wmode": wmode}

    def gen(self, seed, n):
        r = gv.SplitMix(seed * 104729 + 7)
        rneg = gv.SplitMix(seed * 15485863 + 22)
        cases = []
        n_graph = max(1, (n * 2) // 3)
        for i in range(n_graph):
            c = self.gen_graph(r, i, big=(n > 200 and i % 10 == 9), neg=(rneg if i % 8 == 3 else None))
            c["id"] = "p%d" % len(cases)
            cases.append(c)
        # far above every batch / chunk size a parallel arm could use (512, 1024): sparse graphs of 513-1300 nodes,
        # the two centralities only (all_pairs with paths would dominate the run), pools 1 / 3 / 16
        rh = gv.SplitMix(seed * 32452843 + 7)
        for k in range(1 if n <= 200 else 6):
            nn = rh.pick([513, 600, 1025, 1300]) if k else 700
            names = rh.shuffle(list(range(nn)))
            directed = rh.chance(1, 2)
            es, seen = [], set()
            for i in range(1, nn):
                es.append((names[rh.below(i)], names[i]))
            for _ in range(nn // 2):
                u, v = rh.below(nn), rh.below(nn)
                if u != v:
                    es.append((u, v))
            out = []
            for (u, v) in es:
                key = (u, v) if directed else (min(u, v), max(u, v))
                if key not in seen:
                    seen.add(key)
                    out.append((u, v, bits(0.1 * (1 + rh.below(30)))))
            cases.append({"kind": "graph", "directed": directed, "n": nn, "names": names, "edges": out, "wmode": "decimal",
                          "pools": [1, 3, 16], "id": "p%d" % len(cases),
                          "calls": ["betweenness 0 1", "betweenness 1 0", "closeness 0 1", "closeness 1 1"]})
        while len(cases) < n:
            m = r.pick([0, 1, 2, 21, 22, 25, 33, 64, 100, 150]) if r.chance(1, 2) else 21 + r.below(140)
            c = {"kind": "probe", "pool": r.pick(POOLS), "xs": [r.below(2001) - 1000 for _ in range(m)]}
            c["id"] = "p%d" % len(cases)
            cases.append(c)
        return cases

    # ------------------------------------------------------------------ serialisers
    def to_harness(self, c):
        if c["kind"] == "probe":
            return "case %s\nprobe %d %s\nend" % (c["id"], c["pool"], " ".join(map(str, c["xs"])))
        ls = ["case %s" % c["id"], "graph %d %d" % (int(c["directed"]), c["n"]),
              "nodes " + " ".join(map(str, c["names"]))]
        ls += ["e %d %d %s" % e for e in c["edges"]]
        if "pools" in c:
            ls.append("pools " + " ".join(map(str, c["pools"])))
        ls += ["call " + x for x in c["calls"]]
        ls.append("end")
        return "\n".join(ls)

    @staticmethod
    def _zl(l):
        return "[" + ";".join("(%d)" % x if x < 0 else "%d" % x for x in l) + "]"

    def to_coq(self, c):
        s = c.get("sched", [[], []])
        return "PProbe %s %s %s %s" % (self._zl(c["xs"]), self._zl(s[0]), self._zl(s[1]), self._zl(c.get("kept", [])))

    def case_json(self, c):
        d = {k: v for k, v in c.items() if k not in ("sched", "kept")}
        if "edges" in d:
            d["edges"] = [list(e) for e in d["edges"]]
        return d

    def case_from_json(self, j):
        c = dict(j)
        c.pop("sched", None)
        c.pop("kept", None)
        if "edges" in c:
            c["edges"] = [tuple(e) for e in c["edges"]]
        c.setdefault("id", "replay")
        return c

    def describe(self, c):
        if c["kind"] == "probe":
            return self.to_harness(c)
        return "graph directed=%s n=%d edges=%d weights=%s; calls: %s" % (
            c["directed"], c["n"], len(c["edges"]), c.get("wmode"), "; ".join(c["calls"]))

    # ------------------------------------------------------------------ running
    def run_impl(self, cases, wd, tag, release=False):
        impl, errs = super().run_impl(cases, wd, tag, release=release)
        if not release:
            for c in cases:
                if c["kind"] == "probe":
                    for ob in impl.get(c["id"], []):
                        if ob[0] == 60:
                            c["sched"] = [list(ob[1][0]), list(ob[1][1])]
                        if ob[0] == 65:
                            c["kept"] = list(ob[1][0])
        return impl, errs

    def run_cases(self, cases, wd, tag="gen", build=True):
        probes = [c for c in cases if c["kind"] == "probe"]
        graphs = [c for c in cases if c["kind"] == "graph"]
        diagnosis = site_problems(PAR_INFO)
        # probes: correspondence with the Coq model (debug build; the schedule differs from run to run,
        # so debug and release are NOT compared with each other)
        prof, self.profiles = self.profiles, ["debug"]
        try:
            res = super().run_cases(probes, wd, tag=tag, build=build)
        finally:
            self.profiles = prof
        res["corr_errors"] += diagnosis
        if any("does not build" in e for e in res["corr_errors"]):
            return res
        if graphs:
            if build:
                rc, out = gv.harness_build(release=True)
                if rc != 0:
                    res["corr_errors"].append("harness (release) does not build: " + out[-1500:])
                    return res
            # graph cases: alternate between the release and the debug build
            for rel in (True, False):
                part = [c for i, c in enumerate(graphs) if (i % 3 != 2) == rel]
                if not part:
                    continue
                impl, errs = props.BaseProp.run_impl(self, part, wd, tag + ("_rel" if rel else "_dbg"), release=rel)
                res["corr_errors"] += errs
                res["impl"].update(impl)
                for c in part:
                    if c["id"] not in impl:
                        res["corr_errors"].append("implementation produced no output for %s (crash / hang?)" % c["id"])
                        continue
                    for msg in self.oracle(c, impl[c["id"]]):
                        res["failing"].append((c, "property oracle (%s build): %s" % ("release" if rel else "debug", msg),
                                               "counterexample"))
        return res

    # ------------------------------------------------------------------ the property, on the implementation
    def oracle(self, c, obs):
        msgs = []
        by = {}
        for ob in obs:
            by.setdefault(ob[0], ob)
        if c["kind"] == "probe":
            if 62 not in by:
                return ["probe produced no output"]
            want = [3 * x + 1 for x in c["xs"]]
            for which, row in zip(("Vec", "Range"), by[61][1]):
                if row != want:
                    msgs.append("rayon %s source: collected vector differs from map f xs in index order" % which)
            for which, row in zip(("Vec", "Range"), by[60][1]):
                if sorted(row) != list(range(len(c["xs"]))):
                    msgs.append("rayon %s source: the recorded schedule is not a permutation of the item indices "
                                "(an item ran twice or not at all)" % which)
            # failing items: the panic rayon re-raises is that of the LOWEST failing index (rayon::join's rule,
            # the failure semantics of gather_par / run_plan in Model/ParFns.v)
            if 63 not in by:
                msgs.append("probe produced no failing-items observation")
            else:
                want_k = next((i for i, x in enumerate(c["xs"]) if x % 7 == 0), -1)
                for which, k in zip(("Vec", "Range"), by[63][1][0]):
                    if k != want_k:
                        msgs.append("rayon %s source with failing items: the region re-raised the panic of item %d, "
                                    "the serial loop (and the model) fail at item %d" % (which, k, want_k))
            # items that RETURN an error, collected into Result<Vec<_>, E> (gather_result_par in Model/ParFns.v): the
            # error kept is that of SOME erring item (rayon: not deterministic which), Ok iff no item errs; the
            # serial collect keeps the lowest erring index
            if 65 not in by:
                msgs.append("probe produced no Result-collect observation")
            else:
                erring = [i for i, x in enumerate(c["xs"]) if x % 7 == 0]
                e_vec, e_range, e_serial = by[65][1][0]
                for which, e in (("Vec", e_vec), ("Range", e_range)):
                    if (e == -1) != (not erring) or (e != -1 and e not in erring):
                        msgs.append("rayon %s source, items returning Result: collect::<Result<Vec<_>,_>>() returned %s "
                                    "but the erring items are %s" % (which, "Ok" if e == -1 else "the error of item %d" % e,
                                                                     erring[:10]))
                if e_serial != (erring[0] if erring else -1):
                    msgs.append("serial collect::<Result<Vec<_>,_>>() returned item %d's error, lowest erring index is %s"
                                % (e_serial, erring[:1]))
            return msgs
        ncalls = len([x for x in c["calls"] if not x.startswith("hammer")])
        rows = by[50][1] if 50 in by else []
        if len(rows) != ncalls:
            msgs.append("expected %d call summaries, got %d" % (ncalls, len(rows)))
        npools = len(c.get("pools", POOLS))
        for row, call in zip(rows, [x for x in c["calls"] if not x.startswith("hammer")]):
            fid, runs, mism, ln, _hh, _hl, panicked = row
            name = FN_NAMES.get(fid, str(fid))
            if panicked:
                msgs.append("%s (%s) panicked" % (name, call))
            if mism:
                det = [(r[1], r[2]) for r in (by[53][1] if 53 in by else []) if r[0] == fid]
                msgs.append("%s (%s): %d of %d runs are NOT bit-for-bit identical to the first run "
                            "(pool size, repetition; 0 = global pool, -1 = serial per-source reference): %s"
                            % (name, call, mism, runs, det[:8]))
            if runs < npools * 2 + 1:
                msgs.append("%s: only %d runs were compared" % (name, runs))
        if any(x.startswith("hammer") for x in c["calls"]):
            if 52 not in by:
                msgs.append("hammer produced no output")
            else:
                rb, mb, it = by[52][1][0]
                if rb or mb:
                    msgs.append("concurrent read-only use changed a result: %d reader mismatches, %d mismatches of the "
                                "parallel functions, %d reader iterations" % (rb, mb, it))
        return msgs

    def nontrivial(self, c, obs):
        if c["kind"] == "probe":
            return len(c["xs"]) > self.threshold()
        for ob in obs:
            if ob[0] == 50:
                return c["n"] > self.threshold() and any(r[3] > 100 for r in ob[1])
        return False

    def stats_key(self, c, obs):
        if c["kind"] == "probe":
            return ["kind_probe", "probe_pool_%d" % c["pool"]]
        ks = ["kind_graph", "directed" if c["directed"] else "undirected", "weights_" + c["wmode"],
              "n_%d-%d" % (c["n"] // 10 * 10, c["n"] // 10 * 10 + 9)]
        if any(x.startswith("hammer") for x in c["calls"]):
            ks.append("hammered")
        return ks

    def shrink_candidates(self, c):
        out = []
        if c["kind"] == "graph":
            for i in range(len(c["calls"])):
                if len(c["calls"]) > 1:
                    d = dict(c)
                    d["calls"] = c["calls"][:i] + c["calls"][i + 1:]
                    out.append(d)
            thr = self.threshold()
            # drop edges (keeping the node count above the threshold)
            step = max(1, len(c["edges"]) // 8)
            for i in range(0, len(c["edges"]), step):
                d = dict(c)
                d["edges"] = c["edges"][:i] + c["edges"][i + step:]
                out.append(d)
            if c["n"] > thr + 1:
                keep = set(c["names"][:thr + 1])
                d = dict(c)
                d["names"] = c["names"][:thr + 1]
                d["n"] = thr + 1
                d["edges"] = [e for e in c["edges"] if e[0] in keep and e[1] in keep]
                ok = True
                for call in c["calls"]:
                    t = call.split()
                    if t[0] == "multi_source" and any(int(x) not in keep for x in t[4:]):
                        ok = False
                    if t[0] == "involving" and int(t[2]) not in keep:
                        ok = False
                if ok:
                    out.append(d)
        return out


C07 = props.register(ParProp())
C07.manifest = {
    "text": "PART 1, generic (Coq, unbounded, axiom-free): in a model of the rayon fragment the crate uses - an "
            "indexed source, `map f`, `collect` into a Vec, where a schedule is the order in which the work items are "
            "executed (any splitting tree / stealing order) - the collected vector equals map f xs for EVERY schedule "
            "that is a permutation of the item indices and every pure f (C07_schedule_independent, "
            "C07_two_schedules_agree, C07_plan_independent); gather-then-post-process and gather-then-fold in index "
            "order equal the serial path for an ARBITRARY post / combine (C07_gather_then_post, C07_gather_then_fold). "
            "PART 2, PER FUNCTION (Model/ParFns.v, Proofs/ParFnsOk.v): BOTH arms of `match parallel` of multi_source, "
            "all_pairs (all_pairs_iter / all_pairs_par_iter), get_all_shortest_paths_involving, betweenness_centrality "
            "and closeness_centrality are transcribed on top of the per-source functions of the algorithm models "
            "(Model/Dijkstra.v, Brandes.v, Closeness.v), with the arm and the schedule as arguments. For every "
            "argument tuple and EVERY schedule the parallel arm returns exactly the outcome of the serial arm - Ok "
            "values, Err kinds and panics alike - and for every thread count, through the `number_of_nodes() > 20 && "
            "current_num_threads() > 1` switch, the function equals the algorithm model that the correspondence checks "
            "of C04 / C05 / C06 tie to the code (C07_*_parallel_eq_serial, C07_*_sched_unobservable): for betweenness / "
            "closeness on every graph state (closeness also in the form `WF g -> schedule of 0..n-1`); for multi_source, "
            "all_pairs, get_all_shortest_paths_involving on every state with a coherent adjacency (wf_adj; multi_source: "
            "and coherent name indexes), in particular every WF = every reachable state (C07_multi_source_/all_pairs_"
            "parallel_eq_serial_WF), for ANY weights (negative ones included), names, options and cutoff - and on "
            "EVERY graph state as far as success and the Ok value are concerned (C07_multi_source_ok_any_state, "
            "C07_all_pairs_ok_any_state). Why the split: since the repair of F22 the closures of all_pairs / "
            "multi_source RETURN the per-source Result and the region is `collect::<Result<Vec<_>, Error>>()`; rayon "
            "keeps the error of the erring item that ran first and starts no further item (`If there are multiple "
            "errors, the one returned is not deterministic`), the serial collect keeps the error of the lowest index. "
            "Model/ParFns.v transcribes that region (gather_result_par; rayon 1.12 src/result.rs); "
            "C07_result_region: success and the Ok value never depend on the schedule, a failure is that of SOME "
            "failing item, and the region equals the serial collect as soon as the failing items fail alike - which "
            "they do: the per-source search neither panics nor runs out of fuel on a coherent adjacency, the ONLY Err "
            "it can return is ContradictoryPaths (Proofs/DijkstraErrKind.v, every graph state), and multi_source has "
            "checked the names up front, so NodeNotFound is excluded (C07_multi_source_items_fail_alike, "
            "C07_all_pairs_items_fail_alike). On an incoherent state one item could panic while another returns Err; "
            "the real arms could then differ too (Example result_region_keeps_some_error), so the full equalities are "
            "no longer claimed there. The proofs never unfold the per-source functions nor the combine functions "
            "(accumulate_betweenness, HashMap insert): the fold order, hence the value, is the same in ANY number "
            "structure, associative or not (C07_loop_shape_any_combine: combine universally quantified). Work items "
            "that PANIC (`.unwrap()` / indexing inside the closures; betweenness, closeness): the region fails with "
            "the failure of the LOWEST failing index, which is rayon::join's documented rule (`the first closure's "
            "panic wins`; a split is join(lower, upper), a leaf runs in index order) - C07_region_plan_semantics proves "
            "it for every fork-join plan, C07_region_with_failing_items for every schedule - and is what the serial loop "
            "does. Without that rule (`the failing item executed first wins` for every kind of failure, "
            "C07_pessimistic_region) the same conclusions hold under the same hypotheses (C07_all_pairs_pessimistic, "
            "C07_involving_pessimistic, C07_multi_source_pessimistic_wf - no hypothesis on weights, names or cutoff is "
            "left -, C07_betweenness_pessimistic always, closeness under its fail_alike hypothesis). "
            "The hypotheses of the region model are re-extracted from the current source tree on every run "
            "(tools/gen_parsites.py -> Gen/ParSites.v) and re-proved by vm_compute (C07_par_sites_ok, "
            "C07_par_sites_modelled): exactly the four sites betweenness_centrality, closeness_centrality, all_pairs (via "
            "all_pairs_par_iter), multi_source; indexed source, adaptors = {map}, collect into Vec (the two centrality "
            "loops) resp. into Result<Vec<_>, Error> (all_pairs, multi_source) - C07_par_site_shapes pins which function "
            "uses which region, so the transcription and the source cannot part ways silently -, sequential "
            "consumption, no Mutex/atomic/RefCell/unsafe anywhere in the crate, thresholds <= 20.",
    "note": "NOT proved: rayon's implementation of the indexed collect and of join, real work stealing and memory "
            "ordering (modelled by run_par / run_plan; per-run probes: the schedule rayon really used is recorded and "
            "the Coq model must reproduce the collected vector from it, and - observation 63 - regions with FAILING "
            "items, low indices made slow, must re-raise the panic of the lowest failing index, as the model's region "
            "says, for pool sizes 1..16 and Vec / Range sources; observations 64/65 - regions whose items RETURN "
            "Err(i), collected into Result<Vec<_>, E>: the index whose error rayon kept must be admitted by "
            "gather_result_par; in the quick run rayon kept an error other than the lowest erring index in about half "
            "of the probes with errors, i.e. the non-determinism the model allows is real); that the Rust closures are the pure functions of "
            "(&Graph, item) the models say - supported by the source scan (no interior mutability, no unsafe => shared "
            "&Graph is race-free by Rust's type system) and by the correspondence checks of C04/C05/C06 on the "
            "per-source models. The arms are hand transcriptions of dijkstra.rs:100-399,606, betweenness.rs:50-74, "
            "closeness.rs:52-90; their Serial instances are PROVED equal to the correspondence-checked models "
            "(closeness: up to the explicit HashMap inserts, collect_map). Hypotheses that remain: the schedule is a "
            "permutation of the work items (needed: Example incomplete_schedule_differs); for closeness on an "
            "arbitrary (incoherent) directed state the items are those of the reversed copy. EXPLORATION (testing, not "
            "proof), every run: the five functions on random graphs of 21-60 nodes (120 in the thorough tier), "
            "unweighted / dyadic / non-dyadic weights, inside ThreadPool::install for pool sizes 1,2,3,4,8,16 x 2 "
            "repetitions plus the global pool, compared bit for bit (f64::to_bits, path lists) with each other, with "
            "the pool-size-1 run (serial path) and with a serial reference built from per-source single_source calls; "
            "8 threads hammering one shared &Graph with read-only calls while the parallel functions run. A source "
            "change that leaves the modelled fragment (reduce/sum/fold/for_each/par_bridge, unindexed source, collect "
            "into a map, a Mutex) is reported as VIOLATION ... no-failing-input-found unless the exploration finds "
            "differing bits. Since F22: every eighth exploration graph carries negative weights and is run through the three "
            "dijkstra.rs functions (Err(ContradictoryPaths) / [] identical under every pool size and equal to the serial "
            "per-source reference). Axioms: none (Closed under the global context) for all 37 pinned theorems.",
    "technique": "Coq proof about a schedule / fork-join model of the rayon fragment and about both transcribed arms of "
                 "the five functions + source-extracted hypotheses re-proved per run (vm_compute) + schedule-probe and "
                 "panic-probe correspondence + bit-for-bit exploration on the implementation",
}
