"""C04 / C08 — Dijkstra shortest paths: generator, serialisers, oracles.

A case is one graph (built with new_from_nodes_and_edges on Graph<i64,i64>) plus a list of
calls of dijkstra::{single_source, multi_source, all_pairs, get_all_shortest_paths_involving}.
The harness (mode `sp`) prints, per call, the outcome code and the complete answer; the Coq
model (Run.RunDijkstra) prints the same, restricted to what the property fixes (`level`), plus
the verdict of the verified checkers on its own answer (kind 45).

C04 oracle: the implementation's answer against an independent reference computed here from the
implementation's own edge store (get_all_edges): Floyd-Warshall distances, DFS enumeration of all
shortest paths.  C08 oracle: the metamorphic relations between the implementation's own answers.
"""
import heapq
from fractions import Fraction

import gv
import hist
import props

POOL = [5, 3, 7, 1, 9, 2, 8, 4]
ABSENT = 99
FN = {"single": "FSingle", "multi": "FMulti", "all_pairs": "FAllPairs", "involving": "FInvolving"}


# ------------------------------------------------------------------------------------------
# reference graph semantics (python): stored edges -> adjacency
# ------------------------------------------------------------------------------------------

def adjacency(nodes, edges, directed, weighted):
    """edges: list of (u, v, w-or-None).  -> {u: [(v, cost)]}; NaN edges are not traversable
    in weighted mode; every edge costs 1 in hop-count mode."""
    adj = {x: [] for x in nodes}
    for (u, v, w) in edges:
        if weighted and w is None:
            continue
        c = w if weighted else 1
        adj.setdefault(u, []).append((v, c))
        if not directed and u != v:
            adj.setdefault(v, []).append((u, c))
    return adj


def sssp(adj, s):
    """plain Dijkstra on non-negative costs -> {v: dist}"""
    dist = {}
    pq = [(0, s)]
    while pq:
        d, v = heapq.heappop(pq)
        if v in dist:
            continue
        dist[v] = d
        for (u, c) in adj.get(v, []):
            if u not in dist:
                heapq.heappush(pq, (d + c, u))
    return dist


def floyd(nodes, adj):
    INF = None
    d = {(a, b): INF for a in nodes for b in nodes}
    for a in nodes:
        d[(a, a)] = 0
    for a in nodes:
        for (b, c) in adj.get(a, []):
            if d[(a, b)] is None or c < d[(a, b)]:
                d[(a, b)] = c
    for k in nodes:
        for a in nodes:
            if d[(a, k)] is None:
                continue
            for b in nodes:
                if d[(k, b)] is None:
                    continue
                x = d[(a, k)] + d[(k, b)]
                if d[(a, b)] is None or x < d[(a, b)]:
                    d[(a, b)] = x
    return d


def hop_cost(adj, a, b):
    cs = [c for (v, c) in adj.get(a, []) if v == b]
    return min(cs) if cs else None


def all_shortest_paths(adj, radj, dist, s, t, limit=20000):
    """all node sequences s..t along tight edges (positive costs) as a sorted list of tuples"""
    out = []

    def rec(v, suffix):
        if len(out) > limit:
            return
        if v == s:
            out.append(tuple([s] + suffix))
            return
        seen = set()
        for (u, c) in radj.get(v, []):
            if u in seen:
                continue
            if u in dist and dist[u] + c == dist[v]:
                seen.add(u)
                rec(u, [v] + suffix)
    rec(t, [])
    return sorted(out)


def reverse_adj(adj):
    r = {}
    for u, l in adj.items():
        for (v, c) in l:
            r.setdefault(v, []).append((u, c))
    return r


# ------------------------------------------------------------------------------------------
# generator
# ------------------------------------------------------------------------------------------

def simulate_store(spec, nodes, edges):
    """python picture of which edges end up stored (only used to choose interesting
    cutoffs / targets; the oracles use the implementation's own edge list)"""
    d, m, s, dd, ms, slf = spec
    names = [n[0] for n in nodes]
    store = {}
    order = []
    for (u, v, w, _a) in edges:
        if not s and u == v:
            if slf == 0:
                return None
            continue
        if ms == 1 and (u not in names or v not in names):
            return None
        for x in (u, v):
            if x not in names:
                names.append(x)
        k = (u, v) if d or u <= v else (v, u)
        if m:
            order.append((k[0], k[1], w))
        elif k in store:
            if dd == 0:
                return None
            if dd == 2:
                store[k] = w
        else:
            store[k] = w
    es = order if m else [(k[0], k[1], w) for k, w in store.items()]
    return names, es


WSCALES = [-60, -3, -1, 40]     # see centgen.py: dyadic weight scale applied inside the harness
BIGODD = 1 << 24


def gen_graph(r, i, zero_ok, big=False):
    d, m, s = (i >> 0) & 1, (i >> 1) & 1, (i >> 2) & 1
    dd = r.pick([1, 2, 1, 2, 0]) if not m else r.below(3)
    slf = 1
    ms = 0
    if big:
        n = 21 + r.below(4)
        names = r.shuffle(list(range(1, n + 1)))
        wmode = "nan"
    else:
        n = r.pick([1, 2, 3, 4, 5, 6, 7, 8, 3, 4, 5, 6, 7, 8])
        names = r.shuffle(POOL)[:n]
        wmode = r.pick(["real", "real", "real", "nan", "zero" if zero_ok else "real", "ties"])
    # declared nodes: all, or a prefix (the rest is created by the edges), some isolated
    if r.chance(1, 5) and not big:
        ms = r.below(2)
        declared = list(names)
    elif r.chance(1, 2):
        declared = list(names)
    else:
        declared = names[:r.below(n + 1)]
    edges = []
    if big:
        # a sparse hop-count graph: a broken ring + a few chords (few shortest paths)
        for j in range(n - 1):
            if not r.chance(1, 8):
                edges.append((names[j], names[j + 1]))
        for _ in range(3 + r.below(4)):
            edges.append((r.pick(names), r.pick(names)))
        # diamonds: a second two-hop route j -> x -> j+2, so that several pairs have >= 2 shortest paths
        for _ in range(3):
            j = r.below(n - 2)
            x = names[(j + 7 + r.below(8)) % n]
            edges.append((names[j], x))
            edges.append((x, names[j + 2]))
    else:
        dens = r.pick([0, 1, 1, 2, 2, 3])
        ne = 0 if n == 0 else r.below(dens * n + 1)
        parts = None
        if n >= 4 and r.chance(1, 4):
            parts = (names[:n // 2], names[n // 2:])     # two components
        for _ in range(ne):
            if parts:
                side = r.pick(parts)
                u, v = r.pick(side), r.pick(side)
            else:
                u, v = r.pick(names), r.pick(names)
            if u == v and not r.chance(1, 3):
                v = r.pick(names)
            edges.append((u, v))
            if r.chance(1, 4):
                edges.append((u, v) if r.chance(1, 2) else (v, u))      # re-hit the pair
    es = []
    for (u, v) in edges:
        if ms == 1 and (u not in declared or v not in declared):
            continue
        if wmode == "nan":
            w = None
        elif wmode == "zero":
            w = r.pick([0, 0, 1, 2])
        elif wmode == "ties":
            w = r.pick([1, 1, 2])
        else:
            w = r.pick([1, 2, 3, 4])
        es.append((u, v, w, None))
    # names used by no edge and not declared do not exist; keep at least the declared ones
    nodes = [(x, None) for x in declared]
    return (d, m, s, dd, ms, slf), nodes, es, wmode


def mk_call(fn, weighted, sources, target, cutoff, fo, wp, wmode):
    if not wp:
        level = 2
    elif fo:
        level = 1
    elif wmode == "zero" and weighted:
        level = 0
    else:
        level = 2
    if fn == "involving":
        level = 2
    return {"fn": fn, "w": int(weighted), "level": level, "src": list(sources), "t": target,
            "c": cutoff, "fo": int(fo), "wp": int(wp)}


def cutoff_values(r, dists):
    vals = sorted(set(dists))
    cands = set()
    for a in vals:
        cands.add(Fraction(a))
    for a, b in zip(vals, vals[1:]):
        cands.add(Fraction(a + b, 2))
    if vals:
        cands.add(Fraction(vals[-1] + 1))
    cands.add(Fraction(0))
    cands.add(Fraction(1, 2))
    return sorted(cands)


def gen_calls(r, kind, spec, nodes, es, wmode, big):
    sim = simulate_store(spec, nodes, es)
    if sim is None:
        names = [n[0] for n in nodes] or [POOL[0]]
        return [mk_call("single", False, [names[0]], None, None, False, True, wmode),
                mk_call("all_pairs", False, [], None, None, False, True, wmode)]
    names, stored = sim
    directed = bool(spec[0])
    calls = []
    modes = [False] if wmode == "nan" else ([True, False] if r.chance(1, 3) else [True])
    for weighted in modes:
        adj = adjacency(names, stored, directed, weighted)
        dist = {s: sssp(adj, s) for s in names}

        def C(fn, srcs, t, c, fo, wp):
            calls.append(mk_call(fn, weighted, srcs, t, c, fo, wp, wmode))
        # --- the unrestricted answers from every entry point, full algorithm and fast path
        for (fo, wp) in ((False, True), (False, False)):
            C("all_pairs", [], None, None, fo, wp)
            if not big or wp:
                srcs = r.shuffle(names)
                if names and r.chance(1, 2):
                    srcs = srcs + [r.pick(names)]
                C("multi", srcs, None, None, fo, wp)
                for s in (names if not big else names[:3]):
                    C("single", [s], None, None, fo, wp)
        if big:
            C("all_pairs", [], None, None, True, True)
            C("all_pairs", [], r.pick(names), Fraction(3), False, True)
            continue
        for s in names:
            C("single", [s], None, None, True, True)
        # --- option tuples
        nsrc = min(len(names), 2 if kind == "c04" else 3)
        for s in r.shuffle(names)[:nsrc]:
            reach = sorted(dist[s].keys())
            tg = [None]
            if reach:
                tg.append(r.pick(reach))
            tg.append(r.pick(names))
            cv = cutoff_values(r, dist[s].values())
            cs = [None, r.pick(cv), r.pick(cv)]
            if kind == "c04":
                tuples = [(r.pick(tg), r.pick(cs), bool(r.below(2)), bool(r.below(2))) for _ in range(6)]
            else:
                tuples = [(t, c, fo, wp) for t in tg for c in cs for fo in (False, True) for wp in (False, True)]
            for (t, c, fo, wp) in tuples:
                C("single", [s], t, c, fo, wp)
        if names:
            # the same option tuple through all three entry points
            for _ in range(2):
                s = r.pick(names)
                cv = cutoff_values(r, dist[s].values())
                t = r.pick([None] + names)
                c = r.pick([None] + cv)
                fo, wp = bool(r.below(2)), bool(r.below(2))
                C("all_pairs", [], t, c, fo, wp)
                C("multi", r.shuffle(names), t, c, fo, wp)
                for s2 in names:
                    C("single", [s2], t, c, fo, wp)
        # --- involving (positive costs only: the property's quantifier)
        if not (wmode == "zero" and weighted):
            for x in (names if kind == "c08" else names[:2]):
                C("involving", [x], None, None, False, True)
            C("involving", [ABSENT], None, None, False, True)
        # --- absent names
        C("single", [ABSENT], None, None, False, True)
        if names:
            C("single", [names[0]], ABSENT, None, False, True)
            C("multi", [names[0], ABSENT], None, None, False, True)
            C("multi", [names[0]], ABSENT, None, False, False)
        C("all_pairs", [], ABSENT, None, False, True)
        C("multi", [], None, None, False, True)
    return calls


def gen_cases(kind, seed, n):
    r = gv.SplitMix(seed * 1000003 + (4 if kind == "c04" else 8))
    r2 = gv.SplitMix(seed * 7919 + (404 if kind == "c04" else 808))
    cases = []
    for i in range(n):
        big = (i % 25 == 24)
        spec, nodes, es, wmode = gen_graph(r, i + r.below(8) * (i >= 8), zero_ok=(kind == "c04"), big=big)
        if i % 10 == 3 and not big:
            # decrease-key gadget (weights up to 10): v is discovered over a heavy edge and improved later, and w's
            # best route runs through v while w's direct edge lies between v's improved and stale distances - every
            # entry point and option combination (the distance-only fast path in particular) must re-queue v
            nm = r2.shuffle(POOL)[:5 + r2.below(2)]
            s_, v_, a_, w_ = nm[:4]
            es = [(s_, v_, 8 + r2.below(3), None), (s_, a_, 1, None), (a_, v_, 1 + r2.below(2), None),
                  (s_, w_, 5 + r2.below(2), None), (v_, w_, 1, None)]
            for _ in range(r2.below(4)):
                x, y = r2.pick(nm), r2.pick(nm)
                if x != y and (x, y) not in [(e[0], e[1]) for e in es] and (y, x) not in [(e[0], e[1]) for e in es]:
                    es.append((x, y, 1 + r2.below(10), None))
            nodes = [(x, None) for x in (nm if r2.below(2) else r2.shuffle(nm))]
            spec = (spec[0], 0, 1, 2, 0, 1)
            wmode = "real"
        wscale = 0
        if wmode != "nan":
            # weight variants, drawn from a separate stream (the base cases stay as they were): a dyadic
            # scale applied inside the harness (see centgen.WSCALES)
            x = r2.below(100)
            if x < 24:
                wscale = r2.pick(WSCALES)
            # (weights 2^24 + w are not used here: the model's path enumeration takes the distance as fuel)
        calls = gen_calls(r, kind, spec, nodes, es, wmode, big)
        cases.append({"id": "%s_%d" % (kind, i), "spec": spec, "nodes": nodes, "edges": es,
                      "wmode": wmode, "calls": calls, "wscale": wscale})
        if i % 10 == 7 and not big:
            # decimal (inexact) weights, oracle only: C08's cutoff clause evaluated on the implementation's own
            # distances - a cutoff EQUAL to a realised distance must keep exactly the entries within it
            nm = r2.shuffle(POOL)[:4 + r2.below(4)]
            des = []
            # every third such case: weights that differ by less than single precision resolves (1 vs 1 - 1e-9) next to
            # very light edges, so that a narrowed (f32) priority mis-orders the fringe
            near = (i % 20 == 17)
            if near:
                # s -> b (1 - 1e-9), s -> a (1), b -> a (1e-10): a must be improved through b, which is settled first
                # only if the fringe orders 0.999999999 before 1.0
                des += [(nm[0], nm[1], 0.999999999, None), (nm[0], nm[2], 1.0, None), (nm[1], nm[2], 1e-10, None)]
            for _ in range(len(nm) + r2.below(2 * len(nm))):
                x, y = r2.pick(nm), r2.pick(nm)
                if x != y:
                    w = r2.pick([1.0, 0.999999999, 1e-10, 0.5, 0.500000001, 1.000000001]) if near else (1 + r2.below(9)) / 10.0
                    des.append((x, y, w, None))
            dspec = (r2.below(2), 0, 1, 2, 0, 1)
            cases.append({"id": "%s_d%d" % (kind, i), "spec": dspec, "nodes": [(x, None) for x in nm], "edges": des,
                          "wmode": "decimal", "wscale": 0, "nomodel": True, "near": near,
                          "calls": [{"fn": "cutsweep", "w": 1, "level": 2, "src": [x], "t": None, "c": None,
                                     "fo": 0, "wp": 1} for x in nm]})
    if kind == "c04":
        # more equal shortest paths than any fixed limit a tie routine could have: chains of 11-12 diamonds
        # (2048 / 4096 shortest paths between the ends), oracle only
        rp = gv.SplitMix(seed * 7919 + 4040)
        for k in ([11] if n <= 400 else [11, 12, 12]):
            directed = rp.below(2)
            perm = rp.shuffle(list(range(3 * k + 1)))
            es = []
            for j in range(k):
                a, b, c_, d = perm[3 * j], perm[3 * j + 1], perm[3 * j + 2], perm[3 * j + 3]
                es += [(a, b, 1, None), (a, c_, 1, None), (b, d, 1, None), (c_, d, 1, None)]
            cases.append({"id": "c04_paths%d_%d" % (k, len(cases)), "spec": (directed, 0, 1, 2, 0, 1),
                          "nodes": [(x, None) for x in rp.shuffle(list(perm))], "edges": es,
                          "wmode": "int", "wscale": 0, "nomodel": True, "expect_paths": 2 ** k,
                          "calls": [{"fn": "pathcount", "w": w_, "level": 2, "src": [perm[0]], "t": perm[3 * k], "c": None,
                                     "fo": 0, "wp": 1} for w_ in (0, 1)]})
    return cases


# ------------------------------------------------------------------------------------------
# serialisers
# ------------------------------------------------------------------------------------------

def h_call(c):
    t = "0 0" if c["t"] is None else "1 %d" % c["t"]
    if c["c"] is None:
        cu = "0 0 1"
    else:
        f = Fraction(c["c"])
        cu = "1 %d %d" % (f.numerator, f.denominator)
    return "call %s %d %d %d %s %s %s %d %d" % (
        c["fn"], c["w"], c["level"], len(c["src"]), " ".join(str(x) for x in c["src"]), t, cu, c["fo"], c["wp"])


def to_harness(c):
    lines = ["case %s" % c["id"]] + (["wscale %d" % c["wscale"]] if c.get("wscale") else []) + [
             "spec %d %d %d %d %d %d" % tuple(c["spec"]),
             "graph %d %s %d %s" % (len(c["nodes"]), " ".join(hist.h_node(n) for n in c["nodes"]),
                                    len(c["edges"]), " ".join(hist.h_edge(e) for e in c["edges"]))]
    lines = [" ".join(l.split()) for l in lines]
    for k in c["calls"]:
        lines.append(" ".join(h_call(k).split()))
    lines.append("end")
    return "\n".join(lines)


def coq_call(c):
    b = lambda x: "true" if x else "false"
    t = "None" if c["t"] is None else "(Some %s)" % hist.z(c["t"])
    if c["c"] is None:
        cu = "None"
    else:
        f = Fraction(c["c"])
        cu = "(Some (Qmake %s %d%%positive))" % (hist.z(f.numerator), f.denominator)
    return "mkcall %s %s %s %s %s %s %s %s" % (FN[c["fn"]], b(c["w"]), hist.z(c["level"]), hist.zl(c["src"]),
                                                t, cu, b(c["fo"]), b(c["wp"]))


def to_coq(c):
    return "mkspcase %s [%s] [%s] [%s]" % (
        hist.coq_spec(c["spec"]),
        "; ".join("(RunDijkstra.N_ %s %s)" % (hist.z(n[0]), hist.oz(n[1])) for n in c["nodes"]),
        "; ".join("(RunDijkstra.E_ %s %s %s %s)" % (hist.z(e[0]), hist.z(e[1]), hist.oz(e[2]), hist.oz(e[3]))
                  for e in c["edges"]),
        "; ".join(coq_call(k) for k in c["calls"]))


# ------------------------------------------------------------------------------------------
# reading the implementation's observations
# ------------------------------------------------------------------------------------------

KLEN = {1040: 1, 1041: 2, 1042: 2}


def parse_row(kind, row):
    kl = KLEN[kind]
    key = tuple(row[:kl])
    npaths = row[kl]
    i, paths = kl + 1, []
    for _ in range(npaths):
        ln = row[i]
        paths.append(tuple(row[i + 1:i + 1 + ln]))
        i += 1 + ln
    return key, paths


def split_obs(c, obs):
    """-> dict(code, nodes, edges, calls=[dict(code, kind, entries={key: (dist, [paths])}, flag)])"""
    out = {"code": None, "nodes": [], "edges": [], "calls": []}
    if not obs:
        return out
    out["code"] = obs[0][1][0][0]
    if out["code"] != 0:
        return out
    out["nodes"] = [r[0] for r in obs[1][1]]
    out["edges"] = [(r[0], r[1], (r[3] if r[2] == 1 else None)) for r in obs[2][1]]
    i = 4
    for k in c["calls"]:
        if i >= len(obs):
            out["calls"].append(None)
            continue
        code = obs[i][1][0][0]
        i += 1
        ent = {"code": code, "entries": None, "kind": None, "flag": None, "dups": 0}
        if code == 0:
            kind, rows, fl = obs[i]
            ent["kind"] = kind
            e = {}
            for row, f in zip(rows, fl):
                key, paths = parse_row(kind, row)
                if key in e:
                    ent["dups"] += 1
                e[key] = (f, paths)
            ent["entries"] = e
            ent["flag"] = obs[i + 1][1][0][0]
            i += 2
        out["calls"].append(ent)
    return out


def project(c, obs):
    """what is compared with the model: rows trimmed to the call's level"""
    if not obs or obs[0][1][0][0] != 0:
        return obs
    res = list(obs[:4])
    i = 4
    for k in c["calls"]:
        if i >= len(obs):
            break
        res.append(obs[i])
        code = obs[i][1][0][0]
        i += 1
        if code == 0:
            kind, rows, fl = obs[i]
            kl = KLEN.get(kind, 1)
            if k["t"] is not None and kind in (1040, 1041):
                # only the target's entry is fixed by the property
                keep = [j for j, r in enumerate(rows) if r[kl - 1] == k["t"]]
                rows = [rows[j] for j in keep]
                fl = [fl[j] for j in keep]
            if k["level"] == 0:
                rows = [r[:kl] for r in rows]
            elif k["level"] == 1:
                rows = [r[:kl + 1] for r in rows]
            res.append((kind, rows, fl))
            res.append(obs[i + 1])
            i += 2
    return res


def feq(a, b):
    return abs(Fraction(a) - Fraction(b)) <= Fraction(1, 10 ** 9) * max(1, abs(Fraction(b)))


# ------------------------------------------------------------------------------------------
# C04 oracle: the answer against the reference
# ------------------------------------------------------------------------------------------

def per_source(k, ent):
    """-> {source: {node: (dist, paths)}} for single / multi / all_pairs answers"""
    res = {}
    if k["fn"] == "single":
        res[k["src"][0]] = {key[0]: v for key, v in ent["entries"].items()}
    else:
        for key, v in ent["entries"].items():
            res.setdefault(key[0], {})[key[1]] = v
    return res


def c04_oracle(c, obs):
    msgs = []
    so = split_obs(c, obs)
    if so["code"] != 0:
        return msgs
    nodes, directed = so["nodes"], bool(c["spec"][0])
    ref = {}
    for ci, (k, ent) in enumerate(zip(c["calls"], so["calls"])):
        if ent is None:
            continue
        tag = "call #%d %s" % (ci, h_call(k))
        srcs = k["src"] if k["fn"] in ("single", "multi") else list(nodes)
        if k["fn"] == "involving":
            srcs = []
        absent = [x for x in srcs if x not in nodes] + ([k["t"]] if k["t"] is not None and k["t"] not in nodes else [])
        if k["fn"] == "involving":
            if ent["code"] != 0:
                msgs.append("%s: outcome %d" % (tag, ent["code"]))
            continue
        if absent:
            if ent["code"] != 4:
                msgs.append("%s: absent name but outcome %d (NodeNotFound expected)" % (tag, ent["code"]))
            continue
        weighted = bool(k["w"])
        if weighted and any(w is None for (_, _, w) in so["edges"]):
            continue    # outside the property's quantifier
        if weighted and any(w is not None and w < 0 for (_, _, w) in so["edges"]):
            # a negative weight (corpus witness of F22 only; never generated): outside the property's
            # quantifier - the reference below is plain Dijkstra.  The call still takes part in the
            # model correspondence (outcome - Err ContradictoryPaths included - and answer), and it must
            # not panic: C20
            if ent["code"] in (100, 101):
                msgs.append("%s: panic / no answer (outcome %d)" % (tag, ent["code"]))
            continue
        if ent["code"] != 0:
            msgs.append("%s: outcome %d on a valid call" % (tag, ent["code"]))
            continue
        if ent["dups"]:
            msgs.append("%s: an entry is reported twice" % tag)
        if weighted not in ref:
            adj = adjacency(nodes, so["edges"], directed, weighted)
            ref[weighted] = (adj, reverse_adj(adj), {s: sssp(adj, s) for s in nodes},
                             all(cst > 0 for l in adj.values() for (_, cst) in l))
        adj, radj, dist, positive = ref[weighted]
        ans = per_source(k, ent)
        if set(ans.keys()) != set(srcs):
            msgs.append("%s: sources reported %s expected %s" % (tag, sorted(ans.keys()), sorted(set(srcs))))
            continue
        cut = k["c"]
        for s in set(srcs):
            a = ans[s]
            want = {v: dv for v, dv in dist[s].items() if cut is None or dv <= cut}
            for v, (dv, paths) in a.items():
                if v not in want:
                    msgs.append("%s: source %d reports %d (dist %s) which is %s" % (
                        tag, s, v, dv, "beyond the cutoff" if v in dist[s] else "unreachable"))
                    continue
                if not feq(dv, want[v]):
                    msgs.append("%s: source %d node %d distance %s, shortest is %s" % (tag, s, v, dv, want[v]))
                    continue
                if not k["wp"]:
                    if paths:
                        msgs.append("%s: with_paths=false but paths returned for %d" % (tag, v))
                    continue
                for p in paths:
                    okp = len(p) >= 1 and p[0] == s and p[-1] == v
                    wsum = 0
                    for x, y in zip(p, p[1:]):
                        hc = hop_cost(adj, x, y)
                        if hc is None:
                            okp = False
                            break
                        wsum += hc
                    if not okp or wsum != want[v]:
                        msgs.append("%s: source %d node %d path %s is not a path of weight %s" % (
                            tag, s, v, list(p), want[v]))
                if k["fo"]:
                    if len(paths) != 1:
                        msgs.append("%s: first_only but %d paths for %d->%d" % (tag, len(paths), s, v))
                elif positive:
                    exp = all_shortest_paths(adj, radj, dist[s], s, v)
                    if sorted(paths) != exp:
                        msgs.append("%s: source %d node %d paths %s, all shortest paths are %s" % (
                            tag, s, v, sorted(paths), exp))
                elif not paths:
                    msgs.append("%s: no path for reported node %d" % (tag, v))
            if k["t"] is None:
                miss = [v for v in want if v not in a]
                if miss:
                    msgs.append("%s: source %d does not report reachable node(s) %s" % (tag, s, miss))
            elif k["t"] in want and k["t"] not in a:
                msgs.append("%s: source %d does not report the reachable target %d" % (tag, s, k["t"]))
        if len(msgs) > 20:
            break
    return msgs


# ------------------------------------------------------------------------------------------
# C08 oracle: metamorphic relations between the implementation's own answers
# ------------------------------------------------------------------------------------------

def cutsweep_oracle(c, obs):
    """decimal-weight cases: the harness compared, for every distance d the unrestricted search realises, the search
    with cutoff = d against the entries of the unrestricted answer with distance <= d (obs 5080 = [checks, failures],
    5081 = the failing (source, bits of d, first_only, with_paths))"""
    import struct
    msgs = []
    if not obs or obs[0][1][0][0] != 0:
        return msgs
    seen = 0
    present = {n[0] for n in c["nodes"]} | {e[0] for e in c["edges"]} | {e[1] for e in c["edges"]}
    for (k, rows, _) in obs:
        if k == 5080:
            src = c["calls"][seen]["src"][0] if seen < len(c["calls"]) else None
            seen += 1
            if rows[0][0] < 0 and src in present:
                msgs.append("unrestricted weighted single_source failed on a graph with positive weights")
        if k == 5081:
            for (s0, bits, fo, wp) in rows:
                d = struct.unpack(">d", struct.pack(">q", bits))[0]
                msgs.append("single_source(weighted, %d, cutoff=%r, first_only=%d, with_paths=%d) is not the unrestricted "
                            "answer restricted to distance <= cutoff (%r is a distance that search itself reports)"
                            % (s0, d, fo, wp, d))
    if c.get("expect_paths"):
        rows = [r for (k, r, _) in obs if k == 5084]
        if len(rows) != len(c["calls"]):
            return ["path count: %d of %d answers" % (len(rows), len(c["calls"]))]
        for r, call in zip(rows, c["calls"]):
            npaths, ndist, nvalid = r[0]
            if (npaths, ndist, nvalid) != (c["expect_paths"],) * 3:
                msgs.append("single_source(weighted=%d, %d, all paths): the far end %d has %d shortest paths; reported %d "
                            "(%d distinct, %d of them real paths of the reported length)"
                            % (call["w"], call["src"][0], call["t"], c["expect_paths"], npaths, ndist, nvalid))
        return msgs
    if seen != len(c["calls"]):
        msgs.append("cutoff sweep produced %d of %d summaries" % (seen, len(c["calls"])))
    # the distances against exact rational Dijkstra on the decimals the weights stand for (k/10), to 1e-9
    directed = bool(c["spec"][0])
    store = {}
    for (u, v, w, _a) in c["edges"]:
        k = (u, v) if directed or u <= v else (v, u)
        # KeepLast; the decimal the weight stands for (k/10), or the binary64 value itself for the near-tie weights
        store[k] = Fraction(w) if c.get("near") else Fraction(int(round(w * 10)), 10)
    adj = {}
    for (u, v), w in store.items():
        adj.setdefault(u, []).append((v, w))
        if not directed:
            adj.setdefault(v, []).append((u, w))
    for (k, rows, fl) in obs:
        if k != 5082 or not rows:
            continue
        s0 = rows[0][0]
        dist, todo = {s0: Fraction(0)}, [s0]
        while todo:                                            # Bellman-Ford style relaxation (tiny graphs)
            x = todo.pop()
            for (y, w) in adj.get(x, []):
                if y not in dist or dist[x] + w < dist[y]:
                    dist[y] = dist[x] + w
                    todo.append(y)
        got = {r[1]: f for r, f in zip(rows, fl)}
        if set(got) != set(dist):
            msgs.append("weighted single_source(%d) reports the nodes %s, reachable are %s" % (s0, sorted(got), sorted(dist)))
        else:
            for y, d in dist.items():
                if abs(got[y] - float(d)) > 1e-12 * max(1.0, float(d)):
                    msgs.append("weighted single_source(%d): distance to %d is %r, the edge list gives %s" % (s0, y, got[y], d))
                    break
    return msgs


def norm(a):
    """{node: (dist, paths)} -> comparable form"""
    return {v: (Fraction(d), sorted(ps)) for v, (d, ps) in a.items()}


def c08_oracle(c, obs):
    msgs = []
    so = split_obs(c, obs)
    if so["code"] != 0:
        return msgs
    nodes, directed = so["nodes"], bool(c["spec"][0])
    has_nan = any(w is None for (_, _, w) in so["edges"])
    # index the answers: (weighted, t, c, fo, wp) -> {source: answer} per entry point
    by = {"single": {}, "multi": {}, "all_pairs": {}}
    inv = {}
    for k, ent in zip(c["calls"], so["calls"]):
        if ent is None:
            continue
        if k["w"] and has_nan:
            continue
        opt = (k["w"], k["t"], k["c"], k["fo"], k["wp"])
        names_ok = all(x in nodes for x in k["src"]) and (k["t"] is None or k["t"] in nodes)
        if k["fn"] == "involving":
            if ent["code"] == 0:
                inv[(k["w"], k["src"][0])] = ent["entries"]
            else:
                msgs.append("involving(%d): outcome %d" % (k["src"][0], ent["code"]))
            continue
        if not names_ok:
            # all entry points agree on an absent name: NodeNotFound
            if ent["code"] != 4:
                msgs.append("%s: absent name, outcome %d; the other entry points answer NodeNotFound" % (
                    h_call(k), ent["code"]))
            continue
        if ent["code"] != 0:
            msgs.append("%s: outcome %d" % (h_call(k), ent["code"]))
            continue
        ans = per_source(k, ent)
        if k["fn"] == "multi" and set(ans.keys()) != set(k["src"]):
            msgs.append("%s: sources %s" % (h_call(k), sorted(ans.keys())))
        if k["fn"] == "all_pairs" and set(ans.keys()) != set(nodes):
            msgs.append("%s: sources %s, nodes %s" % (h_call(k), sorted(ans.keys()), sorted(nodes)))
        d = by[k["fn"]].setdefault(opt, {})
        for s, a in ans.items():
            if s in d and (norm(d[s]) != norm(a)) and not (k["fo"] and k["wp"]):
                msgs.append("%s: two calls with the same arguments differ for source %d" % (h_call(k), s))
            d[s] = a

    def strip(a, fo, wp):
        """first_only answers are compared up to the choice of the path"""
        if fo and wp:
            return {v: (Fraction(x), len(ps)) for v, (x, ps) in a.items()}
        return norm(a)

    # (1) entry points agree
    for opt, d in by["all_pairs"].items():
        for other in ("multi", "single"):
            for s, a in by[other].get(opt, {}).items():
                if s in d and strip(d[s], opt[3], opt[4]) != strip(a, opt[3], opt[4]):
                    msgs.append("all_pairs and %s differ for source %d, options w=%s t=%s c=%s fo=%s wp=%s: %s vs %s"
                                % ((other, s) + opt + (norm(d[s]), norm(a))))
    for opt, d in by["multi"].items():
        for s, a in by["single"].get(opt, {}).items():
            if s in d and strip(d[s], opt[3], opt[4]) != strip(a, opt[3], opt[4]):
                msgs.append("multi_source and single_source differ for source %d, options %s" % (s, opt))
    # (2) options against the unrestricted all-paths answer of the same source
    for fn in ("single", "multi", "all_pairs"):
        for opt, d in by[fn].items():
            w, t, cu, fo, wp = opt
            for s, a in d.items():
                base = None
                for fb in ("single", "all_pairs", "multi"):
                    base = by[fb].get((w, None, None, 0, 1), {}).get(s)
                    if base is not None:
                        break
                if base is None:
                    continue
                tag = "%s source %d options w=%s t=%s c=%s fo=%s wp=%s" % (fn, s, w, t, cu, fo, wp)
                want = {v: x for v, x in base.items() if cu is None or Fraction(x[0]) <= cu}
                for v, (x, ps) in a.items():
                    if v not in want:
                        msgs.append("%s: reports %d, which the unrestricted search %s" % (
                            tag, v, "puts beyond the cutoff" if v in base else "does not reach"))
                        continue
                    bx, bps = want[v]
                    if not feq(x, bx):
                        msgs.append("%s: node %d distance %s, unrestricted %s" % (tag, v, x, bx))
                    if not wp:
                        if ps:
                            msgs.append("%s: with_paths=false but node %d has paths" % (tag, v))
                    elif fo:
                        if len(ps) != 1 or ps[0] not in bps:
                            msgs.append("%s: first_only node %d returns %s, all shortest paths are %s" % (
                                tag, v, ps, sorted(bps)))
                    elif sorted(ps) != sorted(bps):
                        msgs.append("%s: node %d paths %s, unrestricted %s" % (tag, v, sorted(ps), sorted(bps)))
                if t is None:
                    miss = [v for v in want if v not in a]
                    if miss:
                        msgs.append("%s: entries %s of the unrestricted answer (within the cutoff) are missing" % (
                            tag, miss))
                elif t in want and t not in a:
                    msgs.append("%s: the target is missing" % tag)
    # (3) symmetry, triangle inequality, involving — on the unrestricted all-pairs matrix
    for w in (0, 1):
        B = by["all_pairs"].get((w, None, None, 0, 1))
        if B is None:
            continue
        D = {(s, v): Fraction(x[0]) for s, a in B.items() for v, x in a.items()}
        if not directed:
            for (s, v), x in D.items():
                if D.get((v, s)) != x:
                    msgs.append("undirected graph: d(%d,%d)=%s but d(%d,%d)=%s (w=%d)" % (s, v, x, v, s, D.get((v, s)), w))
        for (s, u), x in D.items():
            for v in nodes:
                y = D.get((u, v))
                if y is None:
                    continue
                z = D.get((s, v))
                if z is None or z > x + y:
                    msgs.append("triangle: d(%d,%d)=%s > d(%d,%d)+d(%d,%d)=%s (w=%d)" % (s, v, z, s, u, u, v, x + y, w))
        for (w2, x), got in inv.items():
            if w2 != w:
                continue
            exp = {}
            for s, a in B.items():
                for v, (dv, ps) in a.items():
                    if any(len(p) > 2 and x in p[1:-1] for p in ps):
                        exp[(s, v)] = (Fraction(dv), sorted(ps))
            gotn = {k2: (Fraction(v2[0]), sorted(v2[1])) for k2, v2 in got.items()}
            if gotn != exp:
                msgs.append("involving(%d, w=%d): pairs %s, expected (pairs with a shortest path through it) %s" % (
                    x, w, sorted(gotn.keys()), sorted(exp.keys())))
        if len(msgs) > 20:
            break
    return msgs[:25]


# ------------------------------------------------------------------------------------------
# the plug-ins
# ------------------------------------------------------------------------------------------

class SpProp(props.BaseProp):
    run_module = "Run.RunDijkstra"
    harness_mode = "sp"
    shards = 12

    def __init__(self, pid, kind, quick_n, thorough_n, rule):
        self.id, self.kind = pid, kind
        self.quick_n, self.thorough_n, self.rule = quick_n, thorough_n, rule

    def gen(self, seed, n):
        return gen_cases(self.kind, seed, n)

    def to_harness(self, c):
        return to_harness(c)

    def to_coq(self, c):
        return to_coq(c)

    def oracle(self, c, obs):
        if c.get("nomodel"):
            return cutsweep_oracle(c, obs)
        return c04_oracle(c, obs) if self.kind == "c04" else c08_oracle(c, obs)

    def case_json(self, c):
        j = dict(c)
        j["calls"] = [dict(k, c=(None if k["c"] is None else str(Fraction(k["c"])))) for k in c["calls"]]
        return j

    def case_from_json(self, j):
        c = dict(j)
        c.setdefault("id", "replay")
        c["spec"] = tuple(j["spec"])
        c["nodes"] = [tuple(n) for n in j["nodes"]]
        c["edges"] = [tuple(e) for e in j["edges"]]
        c["calls"] = [dict(k, c=(None if k["c"] is None else Fraction(k["c"]))) for k in j["calls"]]
        return c

    def run_cases(self, cases, wd, tag="gen", build=True):
        """as BaseProp.run_cases, but the model is compared with the projection of the
        implementation's answer onto what the property fixes (see `level`)."""
        res = {"failing": [], "corr_errors": [], "impl": {}}
        if build:
            rc, out = gv.harness_build(release=False)
            if rc != 0:
                res["corr_errors"].append("harness does not build against /repo: " + out[-1500:])
                return res
        impl, errs = self.run_impl(cases, wd, tag)
        res["corr_errors"] += errs
        res["impl"] = impl
        missing = [c["id"] for c in cases if c["id"] not in impl]
        if missing:
            res["corr_errors"].append("implementation produced no output for %d cases (crash/hang?) e.g. %s"
                                      % (len(missing), missing[:3]))
        mcases = [c for c in cases if not c.get("nomodel")]     # decimal-weight cases are decided by the oracle alone
        proj = {c["id"]: project(c, impl[c["id"]]) for c in mcases if c["id"] in impl}
        n, diffs, errs = gv.correspond(self.run_module, mcases, proj, wd, self.to_coq, shards=self.shards)
        res["corr_errors"] += errs
        for c, d in diffs:
            res["failing"].append((c, "implementation differs from the model: " + str(d), self.diff_kind))
        for c in cases:
            if c["id"] in impl:
                for msg in self.oracle(c, impl[c["id"]])[:3]:
                    res["failing"].append((c, "property oracle: " + msg, "counterexample"))
        return res

    def shrink_candidates(self, c):
        """delta debugging on the call list (chunks of 1/2, 1/4, 1/8, then single calls),
        then single edges, then single declared nodes"""
        out = []
        calls = c["calls"]
        n = len(calls)
        seen = set()
        for parts in (2, 4, 8, n):
            if parts > n or parts < 2:
                continue
            size = (n + parts - 1) // parts
            for a in range(0, n, size):
                key = (a, min(n, a + size))
                if key in seen or key == (0, n):
                    continue
                seen.add(key)
                out.append(dict(c, calls=calls[:a] + calls[a + size:]))
            if len(out) >= 24:
                break
        out = out[:30]
        for i in range(len(c["edges"])):
            out.append(dict(c, edges=c["edges"][:i] + c["edges"][i + 1:]))
        out = out[:38]
        for i in range(len(c["nodes"])):
            out.append(dict(c, nodes=c["nodes"][:i] + c["nodes"][i + 1:]))
        return out

    def shrink(self, case, descr, wd, rounds=10, budget_s=75):
        """as BaseProp.shrink, with a wall-clock budget per reported case"""
        import time
        t0 = time.time()
        cur, cur_d = case, descr
        for _ in range(rounds):
            if time.time() - t0 > budget_s:
                break
            cands = self.shrink_candidates(cur)
            if not cands:
                break
            r = self.still_fails(cands[:40], wd)
            if r is None:
                break
            cur, cur_d = r
        cur = dict(cur)
        cur["id"] = case["id"]
        return cur, cur_d

    def stats_key(self, c, o):
        if c.get("expect_paths"):
            return ["weights_int", "more_than_1024_equal_shortest_paths"]
        if c.get("nomodel"):
            n = sum(r[0][0] for (k, r, _) in o if k == 5080 and r[0][0] > 0)
            return ["weights_decimal", "cutoff_equals_realised_distance_checks_%s" % ("0" if n == 0 else "1-9" if n < 10 else "10+")]
        ks = ["kind_d%d_m%d_s%d" % tuple(c["spec"][:3]), "weights_" + c["wmode"]]
        so = split_obs(c, o)
        ks.append("nodes_%d" % len(so["nodes"]) if so["code"] == 0 else "graph_rejected_%s" % so["code"])
        for k, ent in zip(c["calls"], so["calls"]):
            if ent is None:
                continue
            ks.append("call_%s_outcome_%d" % (k["fn"], ent["code"]))
            if k["fn"] != "involving":
                ks.append("opts_t%d_c%d_fo%d_wp%d" % (k["t"] is not None, k["c"] is not None, k["fo"], k["wp"]))
        if len(so["nodes"]) > 20:
            ks.append("rayon_path")
        return ks

    def nontrivial(self, c, o):
        if c.get("expect_paths"):
            return any(k == 5084 and r[0][0] > 1024 for (k, r, _) in o)
        if c.get("nomodel"):
            return any(k == 5080 and r[0][0] >= 6 for (k, r, _) in o)
        so = split_obs(c, o)
        if so["code"] != 0 or len(so["nodes"]) < 2:
            return False
        for ent in so["calls"]:
            if ent and ent["code"] == 0 and ent["entries"] and len(ent["entries"]) >= 2:
                return True
        return False


RULE_COMMON = (
    "one graph per case, Graph<i64,i64> built by new_from_nodes_and_edges: the 8 kinds (directed x multi x self-loops) "
    "cycled, 1-8 nodes drawn from names whose sort order differs from insertion order, some declared up front (isolated "
    "nodes) and some created by edges, 0-3n random edges with re-hit pairs (parallel edges / KeepFirst / KeepLast), "
    "self-loops, 1 case in 4 split into two components; every 25th case a sparse 21-24 node hop-count graph (rayon "
    "path of all_pairs / multi_source). ")

C04 = props.register(SpProp(
    "C04", "c04", 150, 6000,
    RULE_COMMON +
    "Weights from {1,2,3,4}, {1,1,2} (many ties), {0,0,1,2} (zero weights: distances and path soundness only) or "
    "unweighted (hop count). Calls: all_pairs, multi_source (shuffled sources, a duplicate) and single_source from "
    "every node, with the full algorithm (first_only=false, with_paths=true), the distance-only fast path, "
    "first_only=true, and sampled (target, cutoff, first_only, with_paths) tuples with cutoffs at and between the actual "
    "distance values, through all three entry points; absent source/target names. Compared with the Coq model per "
    "call: outcome code, reported nodes, distances, and the sorted path lists (first_only: number of paths; zero "
    "weights: nodes and distances). Oracle: every answer against Floyd/DFS reference computed from the "
    "implementation's own get_all_edges. non-trivial = graph accepted, >=2 nodes, some call reports >=2 nodes; "
    "distinct = distinct case text"))

C04.manifest = {
    "text": "Proved in Coq, unbounded and axiom-free, about the faithful transcription of dijkstra.rs (Model/Dijkstra.v: "
            "dijkstra with dist/seen/paths/fringe/count, target exit, cutoff skip, ContradictoryPaths, first_only; "
            "dijkstra_basic; heap = extract-max of the transcribed Ord): for EVERY graph state with a well-formed "
            "adjacency, every source index, every (target, cutoff>=0, first_only, with_paths) and non-negative costs "
            "(or hop count), dijkstra returns Ok - no panic, no fuel exhaustion, no ContradictoryPaths - and the answer "
            "satisfies the whole statement: reported iff reachable (within the cutoff / the target), exact shortest "
            "distances, every returned path a shortest path from the source to its node, exactly one path when "
            "first_only, and for positive costs a duplicate-free list of ALL shortest paths "
            "(C04_model_dijkstra_total; loop invariants over the pop loop and the row fold + feasible potentials). "
            "Same for the distance-only fast path (C04_model_fast_path_total). Independently, verified checkers "
            "(check_dist, check_result, the shortest-path-DAG enumeration) are proved sound/complete w.r.t. the spec "
            "and evaluated on the model's answer of every generated call. The model is tied to the code by the "
            "per-call correspondence (outcome, nodes, distances, path sets) and a reference oracle. "
            "END TO END (Proofs/DijkstraWF.v): the structural hypotheses are theorems for every graph state satisfying "
            "the coherence invariant WF, i.e. every state reachable by any history of add_node/add_edge calls or "
            "returned by new_from_nodes_and_edges - well-formed adjacency and coherent name indexes follow from WF "
            "(C04_WF_gives_search_hypotheses), the traversal graph the search reads is exactly the arc relation of the "
            "EDGE STORE (i -> j iff an edge is stored between the two names, either orientation when undirected; cost = "
            "the minimum stored weight of the pair, 1 in hop-count mode: C04_traversal_graph_is_edge_store, "
            "C04_arc_cost_is_min_weight), non-negative costs follow from non-negative stored weights - so dijkstra, the "
            "per-source function and single_source on node names return Ok and meet the whole per-call statement "
            "w.r.t. walks over the edge store (C04_reachable_dijkstra_total, C04_reachable_per_source, "
            "C04_reachable_single_source, C04_history_single_source, C04_constructed_dijkstra_total); read purely on "
            "node names: every name in single_source's map is a node with its exact shortest distance and the name "
            "form of shortest paths (one if first_only, all of them for positive weights), and every node within the "
            "cutoff / the target is in the map (C04_reachable_single_source_answer); in exact form for first_only=false "
            "and positive weights: the path list of every reported name is duplicate free on node names and its members "
            "are exactly the name forms of the shortest paths of the edge-store graph "
            "(C04_reachable_single_source_paths_exact).",
    "note": "Hypotheses left in the end-to-end theorems: the property's own premises (non-negative stored weights "
            "in weighted mode, existing source/target names, cutoff >= 0) and ONE size bound, small_adj = fewer than "
            "2^31-1 adjacency entries (the i32 counter `count` of dijkstra.rs panics on overflow in a debug build); it "
            "holds for every graph of at most 46340 nodes (C04_small_adj_of_nodes). The per-graph flags wf_adj_b, "
            "names_wf_b, nonneg_b (observation 46 of Run/RunDijkstra.v) are kept - they still tie the model's state to "
            "the code's - but what they validate per case is now proved for every reachable graph: "
            "wf_adj (mod. the size bound), names_wf, nonneg (from the stored weights), and the agreement of "
            "successors_vec with the edge store. The name-level collection of multi_source / all_pairs is proved in "
            "C08_reachable_multi_source / C08_reachable_all_pairs. Non-vacuity: C04_reachable_hypotheses_nonvacuous (a "
            "graph built by the transcribed constructor: reachable, WF, small, non-negative weights, all entry points "
            "Ok). Integer weights (exact in binary64); a NaN weight is no arc. Negative weights are outside the "
            "property and are not generated; ONE corpus witness (corpus/C04/F22_negative_weight.json, the graph of "
            "F22) is run on every check so that the model's Err ContradictoryPaths outcomes of single_source / "
            "multi_source / all_pairs are compared with the code (flag 46 is 0 there: the harness observes the "
            "negative stored weight; the reference oracle skips its weighted calls). "
            "Trusted: Coq kernel + vm_compute, harness/printers/diff. Axioms: none.",
    "technique": "Coq proof of the transcribed algorithm (loop invariants) + verified checkers + differential "
                 "correspondence + reference oracle",
}

C08 = props.register(SpProp(
    "C08", "c08", 90, 3000,
    RULE_COMMON +
    "Positive weights {1,2,3,4} / {1,1,2} or unweighted. Calls: the unrestricted answer from all three entry points "
    "(full algorithm and distance-only fast path) for every source; for 3 sources the full product target in {None, a "
    "reachable node, a random node} x cutoff in {None, two values drawn from the distance values / midpoints / 0 / "
    "beyond the maximum} x first_only x with_paths (36 tuples each); two random option tuples through all_pairs, "
    "multi_source and single_source for every source; get_all_shortest_paths_involving(x) for every node and an "
    "absent name; absent source / target names through every entry point. Compared with the Coq model (as C04). "
    "Oracle: the metamorphic relations on the implementation's own answers (entry points agree; target / cutoff / "
    "with_paths / first_only against the unrestricted answer; symmetry; triangle inequality; involving). "
    "non-trivial as C04"))

C08.manifest = {
    "text": "Proved in Coq (unbounded, axiom-free) about the transcribed algorithm: every answer of dijkstra with options "
            "is the restriction of the unrestricted answer - same distances, within the cutoff, exactly the entries "
            "with distance <= cutoff when there is no target, the target's entry when there is one "
            "(C08_model_options_restrict); the distance-only fast path and the full algorithm report the same nodes and "
            "distances (C08_model_fast_path_agrees); with_paths=false leaves paths empty, first_only returns exactly "
            "one shortest path, otherwise all of them (part of C04_model_dijkstra_total / result_ok); "
            "get_all_shortest_paths_involving keeps exactly the all-pairs entries with a path having x strictly inside "
            "(C08_model_involving_filter). Spec level: options_restrict_never_change between any two answers meeting "
            "the per-call statement, cutoff_exact, target_reported, uniqueness of the distance, triangle inequality, "
            "symmetry on a symmetric adjacency, optimal substructure. End to end (Proofs/DijkstraWF.v): on every "
            "reachable graph the three entry points return Ok and agree on node names (C08_reachable_multi_source, "
            "C08_reachable_all_pairs, C08_reachable_involving). The agreement covers the FAILURE case too (since the "
            "repair of F22 multi_source / all_pairs propagate the per-source Err with `?` instead of unwrapping it): on "
            "every graph state, once the up-front name checks have passed, multi_source returns Ok iff every per-source "
            "call does and otherwise fails exactly like the first listed source whose call is not Ok - same Error "
            "kind, same panic site (C08_model_multi_source_ok_iff, C08_model_multi_source_first_failure; all_pairs' "
            "region per node index: C08_model_all_pairs_first_failure); and on every WF graph, for ANY stored weights "
            "and any cutoff, multi_source / all_pairs return EITHER the map of the per-source answers (then every "
            "per-source call returned Ok) OR Err ContradictoryPaths, and then some listed source's / some node's "
            "single_source returns exactly that error - no third outcome (C08_reachable_multi_source_any_weights, "
            "C08_reachable_all_pairs_any_weights; Err branch non-vacuous: C08_any_weights_err_branch_nonvacuous on the "
            "graph 1->2 (1), 1->3 (2), 3->2 (-5)). The metamorphic relations are also checked on "
            "the implementation's own answers by the oracle.",
    "note": "The agreement of the three entry points at the level of node names, formerly validated per generated "
            "case only, is now proved for every graph state satisfying the invariant WF (every reachable graph), "
            "non-negative stored weights (or hop count), existing names, cutoff >= 0 and fewer than 2^31-1 adjacency "
            "entries (small_adj; true up to 46340 nodes): multi_source returns Ok and maps exactly the listed sources, "
            "each to THE answer of single_source from it (C08_reachable_multi_source, C08_history_multi_source); "
            "all_pairs returns Ok and maps exactly the node names, each to the answer of single_source from it "
            "(C08_reachable_all_pairs, C08_constructed_all_pairs; weighted mode on a store with an unweighted edge: "
            "Err EdgeWeightNotSpecified, C08_all_pairs_unweighted_store); get_all_shortest_paths_involving returns "
            "Ok with exactly the all-pairs entries having x strictly inside a path (C08_reachable_involving); "
            "single_source itself is characterised over the EDGE STORE by C04_reachable_single_source, and the "
            "adjacency of an undirected graph is symmetric (C04_arcs_symmetric_when_undirected). The per-call "
            "comparisons with the implementation and the metamorphic oracle are kept. Axioms: none.",
    "technique": "Coq proof of the transcribed algorithm + spec-level theorems + differential correspondence + "
                 "metamorphic oracle",
}
C04.rule += ' WEIGHT VARIANTS (separate PRNG stream): 24% of the weighted cases are run with a dyadic weight scale applied inside the harness (all weights x 2^k on input, weight-valued observations / 2^k on output, k in {-60, -3, 40}; exact in binary64, so the observations must equal those of the unscaled integers the model and the oracle use): path-length differences far below f64::EPSILON, all weights below 1, large magnitudes.'
C08.rule += ' WEIGHT VARIANTS (separate PRNG stream): 24% of the weighted cases are run with a dyadic weight scale applied inside the harness (all weights x 2^k on input, weight-valued observations / 2^k on output, k in {-60, -3, 40}; exact in binary64, so the observations must equal those of the unscaled integers the model and the oracle use): path-length differences far below f64::EPSILON, all weights below 1, large magnitudes.'
