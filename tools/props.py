"""Per-property definitions: generators, serialisers, oracles.  REGISTRY maps ids to objects."""
import glob
import hashlib
import json
import os

import gv
import hist

REGISTRY = {}


def register(p):
    REGISTRY[p.id] = p
    return p


class BaseProp:
    id = None
    run_module = None          # Coq module under GV. providing run / run_digest
    harness_mode = None
    profiles = ["debug"]
    trusted_extra = []
    assumptions = []
    diff_kind = "counterexample"   # a model/impl difference on a property observable is a failing input
    quick_n, thorough_n = 300, 3000
    shards = 12
    rule = ""

    # ---- to be provided by subclasses
    def gen(self, seed, n):
        raise NotImplementedError

    def to_harness(self, c):
        raise NotImplementedError

    def to_coq(self, c):
        raise NotImplementedError

    def oracle(self, c, impl_obs):
        return []

    def nontrivial(self, c, impl_obs):
        return True

    def stats_key(self, c, impl_obs):
        return None

    def classify_known(self, case, descr, known):
        return None

    def shrink_candidates(self, c):
        return []

    # ---- generic
    def case_json(self, c):
        return c

    def case_from_json(self, j):
        return j

    def describe(self, c):
        return self.to_harness(c)

    def corpus(self):
        out = []
        for p in sorted(glob.glob(os.path.join(gv.ROOT, "corpus", self.id, "*.json"))):
            try:
                c = self.case_from_json(json.load(open(p)))
                c["id"] = "corpus_" + os.path.basename(p)[:-5]
                out.append(c)
            except Exception as e:  # a broken corpus file must not hide a run
                print("corpus file %s unreadable: %s" % (p, e))
        return out

    def run_impl(self, cases, wd, tag, release=False):
        cf = os.path.join(wd, "%s_cases.txt" % tag)
        with open(cf, "w") as f:
            for c in cases:
                f.write(self.to_harness(c) + "\n")
        rc, out, err = gv.harness_run(self.harness_mode, cf, release=release, timeout=3000)
        impl = gv.parse_harness(out)
        errs = []
        if rc != 0:
            errs.append("harness exited %d: %s" % (rc, err[-400:]))
        return impl, errs

    def run_cases(self, cases, wd, tag="gen", build=True):
        res = {"failing": [], "corr_errors": [], "impl": {}}
        if build:
            rc, out = gv.harness_build(release=False)
            if rc != 0:
                res["corr_errors"].append("harness does not build against /repo: " + out[-1500:])
                return res
            if "release" in self.profiles:
                rc, out = gv.harness_build(release=True)
                if rc != 0:
                    res["corr_errors"].append("harness (release) does not build: " + out[-1500:])
                    return res
        impl, errs = self.run_impl(cases, wd, tag)
        res["corr_errors"] += errs
        res["impl"] = impl
        missing = [c["id"] for c in cases if c["id"] not in impl]
        if missing:
            res["corr_errors"].append("implementation produced no output for %d cases (crash/hang?) e.g. %s"
                                      % (len(missing), missing[:3]))
        if "release" in self.profiles:
            impl_r, errs = self.run_impl(cases, wd, tag + "_rel", release=True)
            res["corr_errors"] += errs
            for c in cases:
                a, b = impl.get(c["id"]), impl_r.get(c["id"])
                if a is not None and b is not None:
                    d = gv.diff_case(b, a)
                    if d:
                        res["failing"].append((c, "release build differs from debug build: " + d, "counterexample"))
        if self.run_module:
            n, diffs, errs = gv.correspond(self.run_module, cases, impl, wd, self.to_coq, shards=self.shards)
            res["corr_errors"] += errs
            for c, d in diffs:
                res["failing"].append((c, "implementation differs from the model: " + str(d), self.diff_kind))
        for c in cases:
            if c["id"] in impl:
                for msg in self.oracle(c, impl[c["id"]]):
                    res["failing"].append((c, "property oracle: " + msg, "counterexample"))
        return res

    def run(self, seed, tier, wd):
        n = self.thorough_n if tier == "thorough" else self.quick_n
        cases = self.corpus() + self.gen(seed, n)
        res = self.run_cases(cases, wd)
        impl = res["impl"]
        keys, stats = set(), {}
        for c in cases:
            o = impl.get(c["id"])
            if o is None:
                continue
            if self.nontrivial(c, o):
                keys.add(hashlib.sha1(self.to_harness(c).split("\n", 1)[-1].encode()).hexdigest())
            k = self.stats_key(c, o)
            if k is not None:
                for kk in (k if isinstance(k, (list, set, tuple)) else [k]):
                    stats[str(kk)] = stats.get(str(kk), 0) + 1
        return {
            "evaluations": len([c for c in cases if c["id"] in impl]),
            "nontrivial": len(keys),
            "rule": self.rule,
            "samples": [self.describe(c) for c in cases[:3]],
            "failing": res["failing"],
            "corr_errors": res["corr_errors"],
            "stats": stats,
            "profiles": self.profiles,
        }

    def still_fails(self, cands, wd):
        """returns the first candidate (case, descr) that still fails, else None"""
        for i, c in enumerate(cands):
            c["id"] = "shr%d" % i
        res = self.run_cases(cands, wd, tag="shrink", build=False)
        byid = {}
        for c, d, k in res["failing"]:
            byid.setdefault(c["id"], (c, d))
        for c in cands:
            if c["id"] in byid:
                return byid[c["id"]]
        return None

    def shrink(self, case, descr, wd, rounds=8):
        cur, cur_d = case, descr
        for _ in range(rounds):
            cands = self.shrink_candidates(cur)
            if not cands:
                break
            r = self.still_fails(cands[:40], wd)
            if r is None:
                break
            cur, cur_d = r
        cur = dict(cur)
        cur["id"] = case["id"]
        return cur, cur_d


# ------------------------------------------------------------------------------------------
# history-based properties: C01 C02 C03 C09 C15
# ------------------------------------------------------------------------------------------

def _tup(x):
    if isinstance(x, list):
        return tuple(_tup(y) for y in x)
    return x


class HistProp(BaseProp):
    run_module = "Run.RunHist"
    harness_mode = "hist"

    def __init__(self, pid, kind, quick_n, thorough_n, rule):
        self.id, self.kind = pid, kind
        self.quick_n, self.thorough_n, self.rule = quick_n, thorough_n, rule

    def gen(self, seed, n):
        return hist.gen_cases(self.kind, seed, n)

    def to_harness(self, c):
        return hist.to_harness(c)

    def to_coq(self, c):
        return hist.to_coq(c)

    def case_json(self, c):
        return {"spec": list(c["spec"]), "snap_each": c["snap_each"], "ops": c["ops"], "id": c["id"]}

    def case_from_json(self, j):
        ops = []
        for op in j["ops"]:
            op = list(op)
            k = op[0]
            if k in ("add_node", "add_edge", "add_edge_tuple"):
                ops.append((k, _tup(op[1])))
            elif k in ("add_nodes", "add_edges", "add_edge_tuples"):
                ops.append((k, [_tup(x) for x in op[1]]))
            elif k == "new_from":
                ops.append((k, ([_tup(x) for x in op[1][0]], [_tup(x) for x in op[1][1]])))
            elif k == "q":
                ops.append((k, op[1], _tup(op[2])))
            else:
                ops.append((k,))
        return {"id": j.get("id", "replay"), "spec": tuple(j["spec"]), "snap_each": j["snap_each"], "ops": ops}

    def shrink_candidates(self, c):
        out = []
        ops = c["ops"]
        for i in range(len(ops)):
            d = dict(c)
            d["ops"] = ops[:i] + ops[i + 1:]
            out.append(d)
        # split batches
        for i, op in enumerate(ops):
            if op[0] in ("add_edges", "add_nodes", "add_edge_tuples") and len(op[1]) > 1:
                for j in range(len(op[1])):
                    d = dict(c)
                    d["ops"] = ops[:i] + [(op[0], op[1][:j] + op[1][j + 1:])] + ops[i + 1:]
                    out.append(d)
        return out

    def stats_key(self, c, o):
        ks = ["spec_d%d_m%d_s%d" % tuple(c["spec"][:3]), "nops_%d" % len([x for x in c["ops"] if x[0] != "q"])]
        for ob in o:
            if ob[0] == 1:
                ks.append("outcome_%d" % ob[1][0][0])
        return ks

    def nontrivial(self, c, o):
        codes = set(ob[1][0][0] for ob in o if ob[0] == 1)
        kinds = set(op[0] for op in c["ops"])
        return len(kinds) >= 2 and (0 in codes)


C01 = register(HistProp(
    "C01", "c01", 1500, 20000,
    "histories of 1-10 mutation calls (add_node/add_nodes/add_edge/add_edge_tuple/add_edges/add_edge_tuples/"
    "new_from_nodes_and_edges) over 4-5 integer names whose sort order differs from insertion order, weights "
    "{NaN,1,2,3}, 35% of edges re-hit an existing pair; the 96 GraphSpecs are cycled; after EVERY call the "
    "outcome code, node list, edge multiset and all twelve private indexes (hook snapshot) are compared with the "
    "Coq model and with the spec layer; non-trivial = uses >=2 kinds of call and at least one call succeeds; "
    "distinct = distinct case text"))

C01.manifest = {
    "text": "Unbounded theorems (all specs, all histories, all names/weights, generic name type) about the spec-level "
            "mutation ladder: error => graph unchanged, only the three error kinds, self-loop / missing-node / duplicate "
            "policies sentence by sentence, source-first creation, either orientation when undirected, re-add keeps "
            "position and replaces attributes, batch add applies exactly the prefix before the first failing edge, "
            "never panics. The spec and the faithful twelve-field model are tied to the code by a per-call "
            "correspondence (outcome, node list, edge multiset, all private indexes via the hook).",
    "note": "Trusted: Coq kernel + vm_compute; harness/printers/diff; the refinement twelve-field-model -> spec is "
            "validated per generated history (flag kind 5), its unbounded proof is in progress (DESIGN.md 6/C01). "
            "Axioms: none (Closed under the global context).",
    "technique": "Coq proof (induction over op lists) + differential correspondence vs vm_compute model",
}

# property modules tools/p_*.py register themselves on import
import importlib  # noqa: E402
for _f in sorted(glob.glob(os.path.join(os.path.dirname(os.path.abspath(__file__)), "p_*.py"))):
    importlib.import_module(os.path.basename(_f)[:-3])


# ------------------------------------------------------------------------------------------
# C03: traversal lists vs edge store (oracle independent of the Coq model)
# ------------------------------------------------------------------------------------------
class C03Prop(HistProp):
    def oracle(self, c, o):
        """after every call: successors_vec / predecessors_vec (hook snapshot) must equal the
        adjacency rebuilt from get_all_nodes()/get_all_edges() alone, weight = min of the pair's edges"""
        msgs = []
        directed, multi = c["spec"][0], c["spec"][1]
        nodes = edges = None
        step = 0
        for kind, rows, _ in o:
            if kind == 1:
                step += 1
            elif kind == 2:
                nodes = [r[0] for r in rows]
            elif kind == 1003:
                edges = rows
            elif kind in (16, 19) and nodes is not None and edges is not None:
                idx = {x: i for i, x in enumerate(nodes)}
                exp = {}
                for e in edges:
                    u, v, wf, w = e[0], e[1], e[2], e[3]
                    wt = None if wf == 0 else w
                    pairs = []
                    if kind == 16:
                        pairs.append((idx[u], idx[v]))
                        if not directed and u != v:
                            pairs.append((idx[v], idx[u]))
                    elif directed:
                        pairs.append((idx[v], idx[u]))
                    for p in pairs:
                        if p in exp:
                            a = exp[p]
                            exp[p] = None if (a is None or wt is None) else min(a, wt)
                        else:
                            exp[p] = wt
                got = {}
                dup = False
                for r in rows:
                    if r[1] == -1:
                        continue
                    p = (r[0], r[1])
                    if p in got:
                        dup = True
                    got[p] = None if r[2] == 0 else r[3]
                if dup:
                    msgs.append("after call %d: duplicate traversal entry in %s" % (
                        step, "successors_vec" if kind == 16 else "predecessors_vec"))
                if got != exp:
                    bad = sorted(set(got.items()) ^ set(exp.items()), key=str)[:4]
                    msgs.append("after call %d: %s disagrees with the edge store (index pair, weight): %s" % (
                        step, "successors_vec" if kind == 16 else "predecessors_vec", bad))
                if len([r for r in rows if r[1] == -1]) != len(nodes):
                    msgs.append("after call %d: traversal list has %d rows for %d nodes" % (
                        step, len([r for r in rows if r[1] == -1]), len(nodes)))
        return msgs[:2]


C03 = register(C03Prop(
    "C03", "c03", 1500, 20000,
    "histories of 2-10 mutation calls biased to collisions (60% of added edges re-hit an existing pair, in either "
    "orientation, with a smaller / larger / equal weight), uniformly weighted {1,2,3,5} (3/4 of cases) or uniformly "
    "unweighted, all 96 GraphSpecs cycled, names whose sort order differs from insertion order; after EVERY call "
    "the hook snapshot of successors_vec / predecessors_vec is compared (a) with the Coq model and (b) by an "
    "independent oracle with the adjacency rebuilt from get_all_nodes()/get_all_edges() alone (neighbour iff edge "
    "stored, weight = minimum of the pair's stored edges); non-trivial = >=2 kinds of call and one success"))
C03.manifest = {
    "text": "Proved for every reachable state (induction over arbitrary histories, all 96 specs, generic name type): the "
            "coherence invariant WF of all twelve private fields (Proofs/WFDefs.v) is established by new and preserved by "
            "add_node/add_edge/batch adds; under WF each row of successors_vec/predecessors_vec lists exactly the nodes "
            "joined by a stored edge (read off get_all_edges alone), each once, with weight adjw = the running minimum of "
            "the stored group (multi-edge) or the weight of the single stored edge; for uniformly real weights adjw is the "
            "true minimum, for uniformly unweighted groups it is NaN. The model is tied to the code per call by the hook "
            "snapshot of both traversal lists; an independent oracle rebuilds the adjacency from the public edge list.",
    "note": "Axioms: none. Trusted: Coq kernel; harness + hook verif_snapshot; the Dijkstra/centrality consumers read "
            "only these lists (checked by C04-C06's own correspondence, not re-proved here). Defect F1 (KeepFirst/KeepLast "
            "kept the minimum instead of the stored weight) was repaired by a fix: commit; the model is the repaired code.",
    "technique": "Coq proof: data-structure invariant by induction over histories + correspondence via hook snapshot",
}
