"""Per-property definitions: generators, serialisers, oracles.  REGISTRY maps ids to objects."""
import glob
import hashlib
import json
import os
import re

import gv
import hist

REGISTRY = {}


def register(p):
    REGISTRY[p.id] = p
    return p


class BaseProp:
    id = None
    run_module = None          # Coq module under GV. providing run / run_digest
    harness_mode = None
    profiles = ["debug"]
    trusted_extra = []
    assumptions = []
    diff_kind = "counterexample"   # a model/impl difference on a property observable is a failing input
    quick_n, thorough_n = 300, 3000
    shards = 12
    rule = ""

    # ---- to be provided by subclasses
    def gen(self, seed, n):
        raise NotImplementedError

    def to_harness(self, c):
        raise NotImplementedError

    def to_coq(self, c):
        raise NotImplementedError

    def oracle(self, c, impl_obs):
        return []

    def nontrivial(self, c, impl_obs):
        return True

    def stats_key(self, c, impl_obs):
        return None

    def classify_known(self, case, descr, known):
        return None

    def classify_diff(self, case, descr):
        """label of a model/implementation difference: "counterexample" when the differing observable is
        one the property statement fixes, "model-mismatch" when it is not (the correspondence is broken
        but the property may still hold)"""
        return self.diff_kind

    def shrink_candidates(self, c):
        return []

    # ---- generic
    def case_json(self, c):
        return c

    def case_from_json(self, j):
        return j

    def describe(self, c):
        return self.to_harness(c)

    def corpus(self):
        out = []
        for p in sorted(glob.glob(os.path.join(gv.ROOT, "corpus", self.id, "*.json"))):
            try:
                c = self.case_from_json(json.load(open(p)))
                c["id"] = "corpus_" + os.path.basename(p)[:-5]
                out.append(c)
            except Exception as e:  # a broken corpus file must not hide a run
                print("corpus file %s unreadable: %s" % (p, e))
        return out

    def run_impl(self, cases, wd, tag, release=False):
        cf = os.path.join(wd, "%s_cases.txt" % tag)
        with open(cf, "w") as f:
            for c in cases:
                f.write(self.to_harness(c) + "\n")
        rc, out, err = gv.harness_run(self.harness_mode, cf, release=release, timeout=3000)
        impl = gv.parse_harness(out)
        errs = []
        if rc != 0:
            errs.append("harness exited %d: %s" % (rc, err[-400:]))
        return impl, errs

    def run_cases(self, cases, wd, tag="gen", build=True):
        res = {"failing": [], "corr_errors": [], "impl": {}}
        if build:
            rc, out = gv.harness_build(release=False)
            if rc != 0:
                res["corr_errors"].append("harness does not build against /repo: " + out[-1500:])
                return res
            if "release" in self.profiles:
                rc, out = gv.harness_build(release=True)
                if rc != 0:
                    res["corr_errors"].append("harness (release) does not build: " + out[-1500:])
                    return res
        impl, errs = self.run_impl(cases, wd, tag)
        res["corr_errors"] += errs
        res["impl"] = impl
        missing = [c["id"] for c in cases if c["id"] not in impl]
        if missing:
            res["corr_errors"].append("implementation produced no output for %d cases (crash/hang?) e.g. %s"
                                      % (len(missing), missing[:3]))
        if "release" in self.profiles:
            impl_r, errs = self.run_impl(cases, wd, tag + "_rel", release=True)
            res["corr_errors"] += errs
            for c in cases:
                a, b = impl.get(c["id"]), impl_r.get(c["id"])
                if a is not None and b is not None:
                    d = gv.diff_case(b, a)
                    if d:
                        res["failing"].append((c, "release build differs from debug build: " + d, "counterexample"))
        if self.run_module:
            # cases flagged "nomodel" lie outside the model's input domain (e.g. non-integer weights):
            # they are decided by the property oracle alone
            mcases = [c for c in cases if not c.get("nomodel")]
            # observation kinds 5000-5999 are oracle-only (no model counterpart)
            impl_m = {k: [ob for ob in v if not 5000 <= ob[0] < 6000] for k, v in impl.items()}
            n, diffs, errs = gv.correspond(self.run_module, mcases, impl_m, wd, self.to_coq, shards=self.shards)
            res["corr_errors"] += errs
            for c, d in diffs:
                res["failing"].append((c, "implementation differs from the model: " + str(d),
                                       self.classify_diff(c, str(d))))
        for c in cases:
            if c["id"] in impl:
                try:
                    msgs = self.oracle(c, impl[c["id"]])
                except Exception as e:      # an answer so malformed that the oracle cannot even read it
                    msgs = ["the implementation's answer does not have the shape the property requires "
                            "(%s: %s while evaluating the property on it)" % (type(e).__name__, e)]
                for msg in msgs:
                    res["failing"].append((c, "property oracle: " + msg, "counterexample"))
        return res

    def run(self, seed, tier, wd):
        n = self.thorough_n if tier == "thorough" else self.quick_n
        cases = self.corpus() + self.gen(seed, n)
        res = self.run_cases(cases, wd)
        impl = res["impl"]
        keys, stats = set(), {}
        for c in cases:
            o = impl.get(c["id"])
            if o is None:
                continue
            if self.nontrivial(c, o):
                keys.add(hashlib.sha1(self.to_harness(c).split("\n", 1)[-1].encode()).hexdigest())
            k = self.stats_key(c, o)
            if k is not None:
                for kk in (k if isinstance(k, (list, set, tuple)) else [k]):
                    stats[str(kk)] = stats.get(str(kk), 0) + 1
        return {
            "evaluations": len([c for c in cases if c["id"] in impl]),
            "nontrivial": len(keys),
            "rule": self.rule,
            "samples": [self.describe(c) for c in cases[:3]],
            "failing": res["failing"],
            "corr_errors": res["corr_errors"],
            "stats": stats,
            "profiles": self.profiles,
        }

    def still_fails(self, cands, wd):
        """returns the first candidate (case, descr) that still fails, else None"""
        for i, c in enumerate(cands):
            c["id"] = "shr%d" % i
        res = self.run_cases(cands, wd, tag="shrink", build=False)
        byid = {}
        for c, d, k in res["failing"]:
            byid.setdefault(c["id"], (c, d))
        for c in cands:
            if c["id"] in byid:
                return byid[c["id"]]
        return None

    def shrink(self, case, descr, wd, rounds=8, budget_s=45):
        import time
        t0 = time.time()
        cur, cur_d = case, descr
        for _ in range(rounds):
            if time.time() - t0 > budget_s:
                break
            cands = self.shrink_candidates(cur)
            if not cands:
                break
            r = self.still_fails(cands[:40], wd)
            if r is None:
                break
            cur, cur_d = r
        cur = dict(cur)
        cur["id"] = case["id"]
        return cur, cur_d


# ------------------------------------------------------------------------------------------
# history-based properties: C01 C02 C03 C09 C15
# ------------------------------------------------------------------------------------------

def _tup(x):
    if isinstance(x, list):
        return tuple(_tup(y) for y in x)
    return x


class HistProp(BaseProp):
    run_module = "Run.RunHist"
    harness_mode = "hist"
    # observation kinds that show private indexes only (hook snapshot): a difference there breaks the
    # correspondence but is not by itself a violation of a property about the public API
    internal_kinds = {1010, 1011, 1012, 1013, 1014, 1015, 1017, 1018, 16, 19, 1016, 1019}

    def classify_diff(self, case, descr):
        m = re.search(r"kind (\d+)", descr)
        if m and int(m.group(1)) in self.internal_kinds:
            return "model-mismatch"
        return "counterexample"

    def __init__(self, pid, kind, quick_n, thorough_n, rule):
        self.id, self.kind = pid, kind
        self.quick_n, self.thorough_n, self.rule = quick_n, thorough_n, rule

    def gen(self, seed, n):
        return hist.gen_cases(self.kind, seed, n)

    def to_harness(self, c):
        return hist.to_harness(c)

    def to_coq(self, c):
        return hist.to_coq(c)

    def case_json(self, c):
        return {"spec": list(c["spec"]), "snap_each": c["snap_each"], "ops": c["ops"], "id": c["id"],
                "wscale": c.get("wscale", 0)}

    def case_from_json(self, j):
        ops = []
        for op in j["ops"]:
            op = list(op)
            k = op[0]
            if k in ("add_node", "add_edge", "add_edge_tuple"):
                ops.append((k, _tup(op[1])))
            elif k in ("add_nodes", "add_edges", "add_edge_tuples"):
                ops.append((k, [_tup(x) for x in op[1]]))
            elif k == "new_from":
                ops.append((k, ([_tup(x) for x in op[1][0]], [_tup(x) for x in op[1][1]])))
            elif k == "q":
                ops.append((k, op[1], _tup(op[2])))
            else:
                ops.append((k,))
        return {"id": j.get("id", "replay"), "spec": tuple(j["spec"]), "snap_each": j["snap_each"], "ops": ops,
                "wscale": j.get("wscale", 0)}

    def shrink_candidates(self, c):
        out = []
        ops = c["ops"]
        for i in range(len(ops)):
            d = dict(c)
            d["ops"] = ops[:i] + ops[i + 1:]
            out.append(d)
        # split batches
        for i, op in enumerate(ops):
            if op[0] in ("add_edges", "add_nodes", "add_edge_tuples") and len(op[1]) > 1:
                for j in range(len(op[1])):
                    d = dict(c)
                    d["ops"] = ops[:i] + [(op[0], op[1][:j] + op[1][j + 1:])] + ops[i + 1:]
                    out.append(d)
        return out

    def stats_key(self, c, o):
        ks = ["spec_d%d_m%d_s%d" % tuple(c["spec"][:3]), "nops_%d" % len([x for x in c["ops"] if x[0] != "q"])]
        for ob in o:
            if ob[0] == 1:
                ks.append("outcome_%d" % ob[1][0][0])
        return ks

    def nontrivial(self, c, o):
        codes = set(ob[1][0][0] for ob in o if ob[0] == 1)
        kinds = set(op[0] for op in c["ops"])
        return len(kinds) >= 2 and (0 in codes)


C01 = register(HistProp(
    "C01", "c01", 1500, 20000,
    "histories of 1-10 mutation calls (add_node/add_nodes/add_edge/add_edge_tuple/add_edges/add_edge_tuples/"
    "new_from_nodes_and_edges) over 4-5 integer names whose sort order differs from insertion order, weights "
    "{NaN,1,2,3}, 35% of edges re-hit an existing pair; the 96 GraphSpecs are cycled; after EVERY call the "
    "outcome code, node list, edge multiset and all twelve private indexes (hook snapshot) are compared with the "
    "Coq model and with the spec layer; non-trivial = uses >=2 kinds of call and at least one call succeeds; "
    "distinct = distinct case text"))

C01.manifest = {
    "text": "Unbounded theorems (all 96 specs, all histories, all names/weights, generic name type). Spec level (a "
            "fifteen-line policy ladder over node list + edge list): error => graph unchanged, only the three error kinds, "
            "self-loop / missing-node / duplicate policies sentence by sentence, source-first creation, either orientation "
            "when undirected, re-add keeps position and replaces attributes, batch add applies exactly the prefix before "
            "the first failing edge, never panics. Model level (faithful transcription of all twelve fields of Graph): the "
            "coherence invariant WF holds in every reachable state (C01_model_reachable_WF); one add_edge / add_node call "
            "refines the spec call: same outcome, same node list, same edge multiset, all twelve fields untouched on an error "
            "(C01_model_add_edge_refines, C01_model_add_node_refines); WHOLE HISTORIES run in lockstep with the spec: for "
            "every sequence of add_node / add_nodes / add_edge / add_edges calls the outcomes agree call by call and the "
            "final states are related (C01_history_refines), and from new(specs) no call ever panics and the graph held "
            "afterwards has exactly the spec's node list and edge multiset (C01_history_from_new); new_from_nodes_and_edges "
            "is such a history (C01_model_new_from_is_history). The model is tied to the code by a per-call correspondence "
            "(outcome, node list, edge multiset, all private indexes via the hook).",
    "note": "Trusted: Coq kernel + vm_compute; harness/printers/diff. The per-case refinement flag (kind 5) is kept as a "
            "tie between model and code although it is now a theorem. add_edge_tuple(s) are modelled as add_edge(s) of the "
            "constructed edges. Axioms: none (Closed under the global context).",
    "technique": "Coq proof (WF invariant, step refinement, simulation over op lists) + differential correspondence vs vm_compute model",
}

# property modules tools/p_*.py register themselves on import
import importlib  # noqa: E402
for _f in sorted(glob.glob(os.path.join(os.path.dirname(os.path.abspath(__file__)), "p_*.py"))):
    importlib.import_module(os.path.basename(_f)[:-3])


# ------------------------------------------------------------------------------------------
# C03: traversal lists vs edge store (oracle independent of the Coq model)
# ------------------------------------------------------------------------------------------
class C03Prop(HistProp):
    internal_kinds = {1010, 1011, 1012, 1013, 1014, 1015, 1017, 1018}   # 1016/1019 (traversal lists) are C03's observables

    def oracle(self, c, o):
        """after every call: successors_vec / predecessors_vec (hook snapshot) must equal the
        adjacency rebuilt from get_all_nodes()/get_all_edges() alone, weight = min of the pair's edges"""
        msgs = []
        directed, multi = c["spec"][0], c["spec"][1]
        nodes = edges = None
        step = 0
        for kind, rows, _ in o:
            if kind == 1:
                step += 1
            elif kind == 2:
                nodes = [r[0] for r in rows]
            elif kind == 1003:
                edges = rows
            elif kind in (16, 19, 1016, 1019) and nodes is not None and edges is not None:
                idx = {x: i for i, x in enumerate(nodes)}
                exp = {}
                for e in edges:
                    u, v, wf, w = e[0], e[1], e[2], e[3]
                    wt = None if wf == 0 else w
                    pairs = []
                    if kind in (16, 1016):
                        pairs.append((idx[u], idx[v]))
                        if not directed and u != v:
                            pairs.append((idx[v], idx[u]))
                    elif directed:
                        pairs.append((idx[v], idx[u]))
                    for p in pairs:
                        if p in exp:
                            a = exp[p]
                            exp[p] = None if (a is None or wt is None) else min(a, wt)
                        else:
                            exp[p] = wt
                got = {}
                dup = False
                for r in rows:
                    if r[1] == -1:
                        continue
                    p = (r[0], r[1])
                    if p in got:
                        dup = True
                    got[p] = None if r[2] == 0 else r[3]
                if dup:
                    msgs.append("after call %d: duplicate traversal entry in %s" % (
                        step, "successors_vec" if kind in (16, 1016) else "predecessors_vec"))
                if got != exp:
                    bad = sorted(set(got.items()) ^ set(exp.items()), key=str)[:4]
                    msgs.append("after call %d: %s disagrees with the edge store (index pair, weight): %s" % (
                        step, "successors_vec" if kind in (16, 1016) else "predecessors_vec", bad))
                if len([r for r in rows if r[1] == -1]) != len(nodes):
                    msgs.append("after call %d: traversal list has %d rows for %d nodes" % (
                        step, len([r for r in rows if r[1] == -1]), len(nodes)))
        msgs += self.consequences(c, o, nodes, edges)
        return msgs[:2]

    def consequences(self, c, o, nodes, edges):
        """C03's last sentence: distances / closeness / betweenness reported for the graph equal those
        computed from get_all_nodes() / get_all_edges() alone (exact rationals, cheapest parallel edge)."""
        import centgen as cg
        from fractions import Fraction
        qs = [op for op in c["ops"] if op[0] == "q" and str(op[1]).startswith("alg_")]
        if not qs or nodes is None or edges is None:
            return []
        directed = c["spec"][0]
        multi_graph = bool(c["spec"][1])
        wq = [q for q in qs if q[1] != "alg_nbrs"]
        weighted = bool((wq[0][2][1] if wq[0][1] == "alg_sssp" else wq[0][2][0]) if wq else 0)
        w = {}
        for e in edges:
            u, v, wf_, wt = e[0], e[1], e[2], e[3]
            if weighted and wf_ != 1:
                return []      # not an all-real history after all (cannot happen with wmode real)
            for k in ([(u, v)] if directed else [(u, v), (v, u)]):
                w[k] = wt if k not in w else min(w[k], wt)
        n = len(nodes)
        d, sig = cg.all_pairs(nodes, w, weighted)
        idx = {x: i for i, x in enumerate(nodes)}
        obs = [ob for ob in o if 5000 <= ob[0] < 6000]
        msgs, at = [], 0
        for op in qs:
            if at >= len(obs) or obs[at][0] != 5001:
                return ["algorithm observations missing for %s" % (op,)]
            code = obs[at][1][0][0]
            at += 1
            res = None
            if code == 0:
                if at >= len(obs):
                    return ["algorithm result missing for %s" % (op,)]
                res = obs[at]
                at += 1
            name = op[1]
            if name == "alg_nbrs":
                x = op[2][0]
                if x not in idx:
                    continue        # no error channel: only called meaningfully on existing names
                if code != 0:
                    msgs.append("get_successors_or_neighbors(%d) panicked on an existing node" % x)
                    continue
                want = sorted(set([e[1] for e in edges if e[0] == x] +
                                  ([] if directed else [e[0] for e in edges if e[1] == x])))
                if sorted(res[1][0] if res[1] else []) != want:
                    msgs.append("traversal neighbours of %d are %s, the stored edges give %s (a self-loop makes a node "
                                "its own neighbour)" % (x, sorted(res[1][0] if res[1] else []), want))
                continue
            if name == "alg_sssp":
                x = op[2][0]
                if x not in idx:
                    if code != 4:
                        msgs.append("single_source from the absent name %d: code %d, expected NodeNotFound" % (x, code))
                    continue
                if code != 0:
                    msgs.append("single_source(%d, weighted=%s) failed with code %d on non-negative weights" % (x, weighted, code))
                    continue
                got = {r[0]: f for r, f in zip(res[1], res[2])}
                exp = {nodes[t]: d[idx[x]][t] for t in range(n) if d[idx[x]][t] is not None}
                cut = ""
                if len(op[2]) > 2 and op[2][2] == 5 and exp:
                    # a target (the largest reachable name), distances only: the target is reported with its shortest
                    # distance; which other nodes are settled before it depends on the history, their distances do not
                    tgt = max(exp)
                    bad = [k for k in got if k not in exp or Fraction(got[k]) != exp[k]]
                    if tgt not in got or bad:
                        msgs.append("single_source(%d, weighted=%s, target=%d, with_paths=false) reports %s; get_all_edges() alone "
                                    "gives %s" % (x, weighted, tgt, sorted(got.items()), sorted((k, float(v)) for k, v in exp.items())))
                    continue
                if len(op[2]) > 2 and op[2][2] in (3, 4) and exp:
                    # cutoff = the median of the distinct distances: exactly the nodes within it are reported
                    ds = sorted(set(exp.values()))
                    dc = ds[len(ds) // 2]
                    exp = {k: v for k, v in exp.items() if v <= dc}
                    cut = ", cutoff=%s, with_paths=%s" % (float(dc), op[2][2] == 4)
                if set(got) != set(exp) or any(Fraction(got[k]) != exp[k] for k in exp):
                    msgs.append("distances from %d reported by single_source(weighted=%s%s) %s differ from those computed "
                                "from get_all_edges() alone %s" % (x, weighted, cut, sorted(got.items()),
                                                                   sorted((k, float(v)) for k, v in exp.items())))
            elif name == "alg_ev":
                if multi_graph:
                    if code != 12:
                        msgs.append("eigenvector_centrality on a multi-edge graph: code %d, expected WrongMethod" % code)
                    continue
                if code == 9:
                    continue            # PowerIterationFailedConvergence is an allowed answer
                if code != 0:
                    msgs.append("eigenvector_centrality(weighted=%s) failed with code %d" % (weighted, code))
                    continue
                xs = {r[0]: f for r, f in zip(res[1], res[2])}
                if sorted(xs) != sorted(nodes):
                    msgs.append("eigenvector_centrality: entries %s, nodes %s" % (sorted(xs), sorted(nodes)))
                    continue
                import math
                # A[u][v] from get_all_edges() alone (single-edge graph: one stored edge per pair; undirected symmetric)
                A = {}
                for e in edges:
                    # (x + A^T x is not invariant under the dyadic weight scale of the case: the code sees w * 2^k)
                    wt_ = float(e[3]) * 2.0 ** c.get("wscale", 0) if (weighted and e[2] == 1) else 1.0
                    A[(e[0], e[1])] = wt_
                    if not directed:
                        A[(e[1], e[0])] = wt_
                nrm = math.sqrt(sum(t_ * t_ for t_ in xs.values()))
                y = dict(xs)
                for (u, v), a in A.items():
                    y[v] += xs[u] * a
                ny = math.sqrt(sum(t_ * t_ for t_ in y.values())) or 1.0
                moved = sum(abs(y[k] / ny - xs[k]) for k in xs)
                fro = math.sqrt(n + sum(a * a for a in A.values()) + 2 * sum(a for (u, v), a in A.items() if u == v))
                bound = 2 * math.sqrt(n) * fro * n * 1e-6 + 1e-9
                if abs(nrm - 1.0) > 1e-9 or min(xs.values()) < 0 or moved > bound:
                    msgs.append("eigenvector_centrality(weighted=%s) is not the unit-norm approximate fixed point of x -> "
                                "normalise(x + A^T x) for the adjacency matrix of get_all_edges(): norm %r, one more step "
                                "moves it by %r (bound %r)" % (weighted, nrm, moved, bound))
            else:
                if code != 0:
                    msgs.append("%s(weighted=%s) failed with code %d" % (name, weighted, code))
                    continue
                got = {r[0]: f for r, f in zip(res[1], res[2])}
                exp = {}
                for vi, v in enumerate(nodes):
                    if name == "alg_cc":
                        inc = [d[s][vi] for s in range(n) if d[s][vi] is not None]
                        r_, tot = len(inc), sum(inc, Fraction(0))
                        exp[v] = Fraction(0) if (r_ <= 1 or n <= 1) else Fraction(r_ - 1) / tot
                    else:
                        raw = Fraction(0)
                        for s in range(n):
                            for t in range(n):
                                if s == vi or t == vi or s == t or d[s][t] is None:
                                    continue
                                if d[s][vi] is None or d[vi][t] is None or d[s][vi] + d[vi][t] != d[s][t]:
                                    continue
                                raw += Fraction(sig[s][vi] * sig[vi][t], sig[s][t])
                        exp[v] = raw if directed else raw / 2
                if set(got) != set(exp) or any(not cg.close(got[k], exp[k]) for k in exp):
                    msgs.append("%s(weighted=%s) %s differs from the value computed from get_all_edges() alone %s" % (
                        "closeness_centrality" if name == "alg_cc" else "betweenness_centrality", weighted,
                        sorted(got.items()), sorted((k, float(v)) for k, v in exp.items())))
        return msgs[:1]


C03 = register(C03Prop(
    "C03", "c03", 1500, 20000,
    "histories of 2-10 mutation calls biased to collisions (60% of added edges re-hit an existing pair, in either "
    "orientation, with a smaller / larger / equal weight), uniformly weighted {1,2,3,5} (3/4 of cases) or uniformly "
    "unweighted, all 96 GraphSpecs cycled, names whose sort order differs from insertion order; after EVERY call "
    "the hook snapshot of successors_vec / predecessors_vec is compared (a) with the Coq model and (b) by an "
    "independent oracle with the adjacency rebuilt from get_all_nodes()/get_all_edges() alone (neighbour iff edge "
    "stored, weight = minimum of the pair's stored edges); non-trivial = >=2 kinds of call and one success"))
C03.manifest = {
    "text": "Proved for every reachable state (induction over arbitrary histories, all 96 specs, generic name type): the "
            "coherence invariant WF of all twelve private fields (Proofs/WFDefs.v) is established by new and preserved by "
            "add_node/add_edge/batch adds; under WF each row of successors_vec/predecessors_vec lists exactly the nodes "
            "joined by a stored edge (read off get_all_edges alone), each once, with weight adjw = the running minimum of "
            "the stored group (multi-edge) or the weight of the single stored edge; for uniformly real weights adjw is the "
            "true minimum, for uniformly unweighted groups it is NaN. The model is tied to the code per call by the hook "
            "snapshot of both traversal lists; an independent oracle rebuilds the adjacency from the public edge list. "
            "THE CONSEQUENCE CLAUSE IS PROVED (round 2, Proofs/BrandesWF.v, Proofs/EdgeStoreOnly.v), one theorem per "
            "algorithm, each quoting that algorithm's end-to-end theorem: for two graphs reached by ANY two histories under "
            "possibly different GraphSpecs (duplicate policy, multigraph flag, missing-node and self-loop rules) with the "
            "same directed flag, the same node list and get_all_edges equal up to order, single_source returns on both "
            "with equal distances (C03_distances_depend_on_edge_store_only: every name reported by both has the same "
            "distance; without a target the maps have the same keys and distances, with a target the target's entry "
            "agrees), closeness_centrality and betweenness_centrality return the same keys in the same order with equal "
            "values, for all heap tie choices (C03_closeness_depends_on_edge_store_only, "
            "C03_betweenness_depends_on_edge_store_only); the arcs the algorithms traverse (i->j with cost c iff an edge "
            "is stored between the i-th and j-th node, c = 1 or the minimum stored weight) are a function of node list, "
            "kind and edge multiset (C03_traversal_arcs_depend_on_edge_store_only); distances also in the weaker form "
            "'same edge-store arcs' (C03_distances_depend_on_arcs_only). Non-vacuity: a KeepLast history that replaces a "
            "weight and a multigraph history in another insertion order (different successors_vec) give equal results "
            "(C03_edge_store_only_nonvacuous). "
            "ALSO THE SHORTEST PATHS single_source reports (with_paths=true; Proofs/PathsStoreOnly.v): with "
            "first_only=false and positive weights, for every name reported by both graphs the two path lists are "
            "duplicate free and contain the same paths, i.e. are permutations of each other - they are exactly the name "
            "forms of the shortest paths of the edge-store graph (C03_paths_depend_on_edge_store_only, "
            "C03_paths_depend_on_arcs_only, from C04_reachable_single_source_paths_exact); with first_only=true "
            "(non-negative weights) each graph reports exactly one path per node and both are shortest paths of the common "
            "edge-store graph (C03_first_path_depends_on_edge_store_only, C03_first_path_depends_on_arcs_only). Evaluated "
            "witnesses: a KeepLast history with a replacement and a KeepFirst history with ignored duplicates in another "
            "order report the two shortest paths of a diamond in a DIFFERENT ORDER and, with first_only, DIFFERENT single "
            "paths (C03_paths_edge_store_only_nonvacuous); with a ZERO weight even the path SET depends on the insertion "
            "order, so the positivity premise is necessary (C03_paths_zero_weight_depend_on_history). "
            "ALSO THE OTHER ENTRY POINTS OF dijkstra.rs (Proofs/EntryStoreOnly.v; composition with C08: all_pairs / "
            "multi_source are single_source per source, get_all_shortest_paths_involving is a filter of all_pairs): under "
            "the same premises (multi_source: plus 'the listed sources are node names') all_pairs and multi_source return "
            "Ok on both graphs for ANY thread count on either side, the two maps have the same source keys (the node names "
            "/ the listed sources) and under every source key the inner maps are related exactly as the single-source "
            "theorems relate them - distances for any first_only/with_paths (C03_all_pairs_distances_depend_on_edge_store_only, "
            "C03_multi_source_distances_depend_on_edge_store_only), duplicate-free path lists with the same paths for "
            "first_only=false and positive weights (C03_all_pairs_depends_on_edge_store_only, "
            "C03_multi_source_depends_on_edge_store_only), one shortest path of the common edge-store graph each for "
            "first_only=true (C03_*_first_path_depends_on_edge_store_only); the same for every arm of `match parallel` "
            "(serial, rayon under any complete schedule with join's panic rule or the pessimistic rule, possibly different "
            "on the two sides: C03_all_pairs_arm_depends_on_edge_store_only, C03_multi_source_arm_depends_on_edge_store_only; "
            "the _sched functions of C07 are these at arm_of, C03_sched_functions_are_arms). "
            "get_all_shortest_paths_involving(x) (positive weights) returns on both graphs the same collection of "
            "(distance, path list) entries up to order and up to the order of each path list: a permutation of one list is "
            "entrywise the other with equal distance and permuted duplicate-free paths, equal lengths, mutual inclusion, "
            "and the all-pairs entry of a pair (s,t) is kept on one graph iff on the other "
            "(C03_involving_depends_on_edge_store_only, C03_involving_arm_depends_on_edge_store_only). Evaluated witness "
            "on the same two graphs, 1 thread vs 8 threads, reversed / shuffled schedules: the entry (1,5) lists its two "
            "paths in a different order under all_pairs and multi_source, the involving(4) lists have three entries and are "
            "NOT equal (C03_entry_points_edge_store_only_nonvacuous).",
    "note": "Axioms: none. Trusted: Coq kernel; harness + hook verif_snapshot. Premises of the consequence theorems are "
            "those of the quoted end-to-end theorems: in weighted mode no stored weight is NaN (the property's 'uniformly "
            "weighted'; a group mixing NaN and real weights has an order-dependent running minimum), non-negative for "
            "distances, positive for the centralities; small_adj (< 2^31-1 adjacency entries, the i32 counter of "
            "dijkstra.rs) for distances. With a target, WHICH other nodes single_source also reports depends on the pop "
            "order among equal distances, hence on the history: only the reported distances and the target's entry are "
            "functions of the edge store, and the theorem says exactly that. Of the reported PATHS the set (first_only=false, "
            "positive weights) is a function of the edge store, the ORDER of the list and the single path kept by first_only "
            "are not (they follow the order of the adjacency rows), and the theorems say exactly that. The multi_source / "
            "all_pairs / involving theorems carry the premises of C08's per-source theorems: listed sources must be node "
            "names (multi_source); all_pairs' 'every stored edge carries a weight' follows from 'every stored weight is a "
            "real'; no node-count threshold (any thread count, any arm). The entries of get_all_shortest_paths_involving "
            "carry no (source, target) key in the API, so 'the same collection' is stated on (distance, path list) values. "
            "Eigenvector centrality (C18) is not restated in the edge-store-only form. "
            "Defect F1 (KeepFirst/KeepLast kept the minimum instead of the stored weight) was repaired by a fix: commit; "
            "the model is the repaired code.",
    "technique": "Coq proof: data-structure invariant by induction over histories; the algorithms' end-to-end theorems "
                 "composed with permutation invariance of the edge-store arcs and of the definitions + correspondence via "
                 "hook snapshot",
}


# ------------------------------------------------------------------------------------------
# C02 / C09 / C15: oracles evaluated on the implementation's own observations
# ------------------------------------------------------------------------------------------
def _split_queries(c, o):
    """pairs each query op of the case with the observations it produced"""
    # the observation stream: mutations produce kind-1 (+ kind 5) rows, snapshots a fixed block
    return None


class C09Prop(HistProp):
    """oracle: handshake identities on the implementation's own answers (independent of the model)"""

    def oracle(self, c, o):
        msgs = []
        directed, multi = c["spec"][0], c["spec"][1]
        nodes = edges = None
        deg = indeg = outdeg = wdeg = windeg = woutdeg = counts = None
        for kind, rows, fl in o:
            if kind == 2:
                nodes = [r[0] for r in rows]
            elif kind == 1003:
                edges = rows
            elif kind == 119:
                counts = rows[0]
            elif kind == 1136:
                deg = {r[0]: r[1] for r in rows}
            elif kind == 1137:
                indeg = {r[0]: r[1] for r in rows}
            elif kind == 1138:
                outdeg = {r[0]: r[1] for r in rows}
            elif kind == 1139:
                wdeg = {r[0]: (None if r[1] == 0 else r[2]) for r in rows}
            elif kind == 1140:
                windeg = {r[0]: (None if r[1] == 0 else r[2]) for r in rows}
            elif kind == 1141:
                woutdeg = {r[0]: (None if r[1] == 0 else r[2]) for r in rows}
        if nodes is None or edges is None:
            return msgs
        m = len(edges)
        if counts is not None:
            if counts[0] != len(nodes):
                msgs.append("number_of_nodes %d != %d nodes" % (counts[0], len(nodes)))
            if counts[1] != m:
                msgs.append("number_of_edges %d != %d stored edges" % (counts[1], m))
            if counts[3] != m:
                msgs.append("size(false) %d != %d stored edges" % (counts[3], m))
            ws = [None if e[2] == 0 else e[3] for e in edges]
            tot = None if any(w is None for w in ws) else sum(ws)
            got = None if counts[4] == 0 else counts[5]
            if got != tot:
                msgs.append("size(true) %s != sum of weights %s" % (got, tot))
        if deg is not None:
            if sum(deg.values()) != 2 * m:
                msgs.append("handshake: degrees sum to %d, 2m = %d" % (sum(deg.values()), 2 * m))
            for x in nodes:
                exp = sum((e[0] == x) + (e[1] == x) for e in edges)
                if deg.get(x) != exp:
                    msgs.append("degree(%d) = %s, edge multiset gives %d" % (x, deg.get(x), exp))
                    break
        for nm_, mp_ in (("get_degree_for_all_nodes", deg), ("get_in_degree_for_all_nodes", indeg),
                         ("get_out_degree_for_all_nodes", outdeg), ("get_weighted_degree_for_all_nodes", wdeg),
                         ("get_weighted_in_degree_for_all_nodes", windeg),
                         ("get_weighted_out_degree_for_all_nodes", woutdeg)):
            if mp_ is not None and set(mp_.keys()) != set(nodes):
                msgs.append("%s has entries for %s, the nodes are %s" % (nm_, sorted(mp_.keys()), sorted(nodes)))
                return msgs[:3]
        if directed and indeg is not None and outdeg is not None and deg is not None:
            if sum(indeg.values()) != m or sum(outdeg.values()) != m:
                msgs.append("in/out degrees sum to %d/%d, m = %d" % (sum(indeg.values()), sum(outdeg.values()), m))
            for x in nodes:
                if deg[x] != indeg[x] + outdeg[x]:
                    msgs.append("degree(%d)=%d != in %d + out %d" % (x, deg[x], indeg[x], outdeg[x]))
                    break
        allreal = all(e[2] == 1 for e in edges)
        if allreal and wdeg is not None:
            tw = sum(e[3] for e in edges)
            if sum(v for v in wdeg.values()) != 2 * tw:
                msgs.append("weighted handshake: %s != 2*%s" % (sum(wdeg.values()), tw))
            if directed and windeg is not None and woutdeg is not None:
                if sum(windeg.values()) != tw or sum(woutdeg.values()) != tw:
                    msgs.append("weighted in/out degree sums %s/%s != %s" % (sum(windeg.values()), sum(woutdeg.values()), tw))
                for x in nodes:
                    if wdeg[x] != windeg[x] + woutdeg[x]:
                        msgs.append("weighted degree(%d) != in + out" % x)
                        break
        # matrix (single-edge graphs): kind 1144 rows [i, j, flag, w]
        for kind, rows, fl in o:
            if kind == 1144 and not multi:
                idx = {x: i for i, x in enumerate(nodes)}
                exp = {}
                for e in edges:
                    w = 1 if e[2] == 0 else e[3]
                    exp[(idx[e[0]], idx[e[1]])] = w
                    if not directed:
                        exp[(idx[e[1]], idx[e[0]])] = w
                got = {(r[0], r[1]): r[3] for r in rows}
                if got != exp:
                    msgs.append("adjacency matrix entries %s != expected %s" % (sorted(got.items())[:6], sorted(exp.items())[:6]))
                if not directed and any(got.get((j, i)) != w for (i, j), w in got.items()):
                    msgs.append("adjacency matrix of an undirected graph is not symmetric")
        return msgs[:3]


class C02Prop(HistProp):
    """oracle: the per-node / pairwise answers recomputed from get_all_nodes / get_all_edges alone"""

    def oracle(self, c, o):
        msgs = []
        directed, multi = c["spec"][0], c["spec"][1]
        nodes = edges = nrows = None
        # walk ops and observations in lockstep
        it = iter(o)

        def nxt():
            return next(it, None)
        try:
            for op in c["ops"]:
                if op[0] == "snap":
                    blk = [nxt() for _ in range(12)]
                    nodes = [r[0] for r in blk[0][1]]
                    nrows = [list(r) for r in blk[0][1]]
                    edges = blk[1][1]
                    continue
                if op[0] == "view":
                    blk = [nxt() for _ in range(2)]
                    nodes = [r[0] for r in blk[0][1]]
                    nrows = [list(r) for r in blk[0][1]]
                    edges = blk[1][1]
                    continue
                if op[0] != "q":
                    code = nxt()
                    if code is None or code[1][0][0] == 100:
                        return msgs
                    nxt()  # kind 5
                    if c["snap_each"]:
                        for _ in range(12):
                            nxt()
                    continue
                q, a = op[1], op[2]
                if nodes is None:
                    return msgs
                has = lambda x: x in nodes
                def key(u, v):
                    return (u, v) if directed or u <= v else (v, u)
                if q in ("get_edge", "get_edges"):
                    code = nxt()[1][0][0]
                    body = nxt() if code == 0 else None
                    u, v = a
                    want_multi = (q == "get_edges")
                    if bool(multi) != want_multi:
                        exp = 12
                    elif not has(u) or not has(v):
                        exp = 4
                    else:
                        grp = [e for e in edges if (e[0], e[1]) == key(u, v)]
                        exp = 0 if grp else 7
                        if grp and body is not None:
                            if q == "get_edges" and sorted(body[1]) != sorted(grp):
                                msgs.append("get_edges(%d,%d) differs from get_all_edges" % (u, v))
                            elif q == "get_edges" and [list(e) for e in body[1]] != [list(e) for e in grp]:
                                # "all parallel edges are retrievable, in insertion order": every view lists the
                                # parallel edges of one pair in the same (insertion) order
                                msgs.append("get_edges(%d,%d) lists the parallel edges in another order than get_all_edges: %s vs %s"
                                            % (u, v, body[1], grp))
                            if q == "get_edge" and body[1][0] not in grp:
                                msgs.append("get_edge(%d,%d) returns an edge that is not stored" % (u, v))
                    if code != exp:
                        msgs.append("%s(%d,%d) outcome %d, expected %d" % (q, u, v, code, exp))
                elif q in ("get_edges_for_node", "get_in_edges_for_node", "get_out_edges_for_node"):
                    code = nxt()[1][0][0]
                    body = nxt() if code == 0 else None
                    x = a[0]
                    if q != "get_edges_for_node" and not directed:
                        exp = 12
                    elif not has(x):
                        exp = 4
                    else:
                        exp = 0
                        if q == "get_edges_for_node":
                            want = [e for e in edges if e[0] == x or e[1] == x]
                        elif q == "get_in_edges_for_node":
                            want = [e for e in edges if e[1] == x]
                        else:
                            want = [e for e in edges if e[0] == x]
                        if body is not None and sorted(body[1]) != sorted(want):
                            msgs.append("%s(%d) = %s but get_all_edges gives %s" % (q, x, sorted(body[1]), sorted(want)))
                    if code != exp:
                        msgs.append("%s(%d) outcome %d, expected %d" % (q, x, code, exp))
                elif q in ("get_edges_for_nodes", "get_in_edges_for_nodes", "get_out_edges_for_nodes"):
                    code = nxt()[1][0][0]
                    body = nxt() if code == 0 else None
                    xs = list(a)
                    if q != "get_edges_for_nodes" and not directed:
                        exp = 12
                    elif not all(has(x) for x in xs):
                        exp = 4
                    else:
                        exp = 0
                        if q == "get_edges_for_nodes":
                            want = [e for e in edges if e[0] in xs or e[1] in xs]
                        elif q == "get_in_edges_for_nodes":
                            want = [e for e in edges if e[1] in xs]
                        else:
                            want = [e for e in edges if e[0] in xs]
                        if body is not None and sorted(body[1]) != sorted(want):
                            msgs.append("%s(%s) disagrees with get_all_edges" % (q, xs))
                    if code != exp:
                        msgs.append("%s(%s) outcome %d, expected %d" % (q, xs, code, exp))
                elif q in ("get_neighbor_nodes", "get_predecessor_nodes", "get_successor_nodes",
                           "get_predecessor_node_names", "get_successor_node_names"):
                    code = nxt()[1][0][0]
                    body = nxt() if code == 0 else None
                    x = a[0]
                    succ = sorted(set([e[1] for e in edges if e[0] == x] +
                                      ([] if directed else [e[0] for e in edges if e[1] == x])))
                    pred = sorted(set(e[0] for e in edges if e[1] == x)) if directed else []
                    if q == "get_neighbor_nodes":
                        exp = 0 if has(x) else 4
                        want = sorted(set(succ + pred))
                    else:
                        exp = 12 if not directed else (0 if has(x) else 4)
                        want = pred if "predecessor" in q else succ
                    if code != exp:
                        msgs.append("%s(%d) outcome %d, expected %d" % (q, x, code, exp))
                    elif body is not None:
                        got = sorted(r[0] for r in body[1])
                        if got != want:
                            msgs.append("%s(%d) = %s but the edge list gives %s" % (q, x, got, want))
                        elif not q.endswith("_names"):
                            # the nodes handed out are the nodes of get_all_nodes (same attributes)
                            stale = [list(r) for r in body[1] if len(r) == 3 and list(r) not in nrows]
                            if stale:
                                msgs.append("%s(%d) returns node %s, get_all_nodes has %s" % (
                                    q, x, stale[0], [r for r in nrows if r[0] == stale[0][0]]))
                elif q == "get_node":
                    b = nxt()
                    if b[0] == 110 and (len(b[1]) == 1) != has(a[0]):
                        msgs.append("get_node(%d) disagrees with get_all_nodes" % a[0])
                    elif b[0] == 110 and len(b[1]) == 1 and list(b[1][0]) not in nrows:
                        msgs.append("get_node(%d) returns %s, get_all_nodes has %s" % (
                            a[0], list(b[1][0]), [r for r in nrows if r[0] == a[0]]))
                elif q == "has_node":
                    b = nxt()
                    if b[0] == 117 and bool(b[1][0][0]) != has(a[0]):
                        msgs.append("has_node(%d) disagrees with get_all_nodes" % a[0])
                elif q == "has_nodes":
                    b = nxt()
                    if b[0] == 118 and bool(b[1][0][0]) != all(has(x) for x in a):
                        msgs.append("has_nodes(%s) disagrees with get_all_nodes" % (list(a),))
                elif q == "get_successors_or_neighbors":
                    b = nxt()
                    if b[0] == 1 and b[1][0][0] == 0:
                        nxt()
                elif q == "breadth_first_search":
                    b = nxt()
                    if b[0] == 1 and b[1][0][0] == 0:
                        body = nxt()
                        x = a[0]
                        adj = {}
                        for e in edges:
                            adj.setdefault(e[0], set()).add(e[1])
                            if not directed:
                                adj.setdefault(e[1], set()).add(e[0])
                        seen, st = {x}, [x]
                        while st:
                            y = st.pop()
                            for zz in adj.get(y, ()):
                                if zz not in seen:
                                    seen.add(zz)
                                    st.append(zz)
                        got = [r[0] for r in body[1]]
                        first = [r[0] for r in body[1] if r[1] == 1]
                        if sorted(got) != sorted(seen) or first != [x]:
                            msgs.append("breadth_first_search(%d) = %s, reachable set %s" % (x, sorted(got), sorted(seen)))
                elif q == "get_node_by_index":
                    b = nxt()
                    if b[0] == 123:
                        i = a[0]
                        want = [nrows[i]] if 0 <= i < len(nrows) else []
                        if [list(r) for r in b[1]] != want:
                            msgs.append("get_node_by_index(%d) = %s, position %d of get_all_nodes is %s" % (
                                i, [list(r) for r in b[1]], i, want))
                elif q in ("counts", "get_all_node_names"):
                    nxt()
                else:
                    return msgs  # unknown query shape: stop the lockstep walk
        except (StopIteration, TypeError, IndexError):
            return msgs[:3]
        return msgs[:3]


C02 = register(C02Prop(
    "C02", "c02", 700, 8000,
    "histories of 2-10 mutation calls (all 96 GraphSpecs cycled, 4-5 names whose sort order differs from insertion "
    "order, weights {NaN,1,2,3}, parallel edges, self-loops) followed by the hook snapshot and a battery of ~150-250 "
    "read calls: get_edge/get_edges for every ordered pair of names incl. one absent name, the ten per-name queries for "
    "every name, get_node_by_index for every position, BFS from every node, the four node-set queries for several "
    "subsets incl. the empty set and absent names; every answer is compared with the Coq model and, independently, "
    "recomputed from get_all_nodes()/get_all_edges() alone; non-trivial = >=2 kinds of mutation call and one success"))
C02.manifest = {
    "text": "Proved (unbounded, every WF state = every state reachable by any history, generic name type): get_node/has_node "
            "answer from the node list; get_edge/get_edges equal the pair's edges of get_all_edges in insertion order with "
            "WrongMethod/NodeNotFound/EdgeNotFound exactly as specified; both are symmetric in their arguments on undirected "
            "graphs for any relation between name order and insertion order; get_out/in_edges_for_node and get_edges_for_node "
            "are permutations of the edges of get_all_edges leaving / entering / touching the node (directed self-loop once). "
            "get_successor_nodes / get_predecessor_nodes / get_neighbor_nodes succeed on every node and list, duplicate-free, "
            "exactly the nodes joined by a stored group; the adjacency query of the searches (get_successors_or_neighbors) "
            "lists exactly the nodes one step away along an edge of get_all_edges (C02_successors_or_neighbors); "
            "breadth_first_search(x) from any node RETURNS, x first, no node twice, exactly the nodes reachable from x along "
            "the edges of get_all_edges (against them too on an undirected graph), and from an absent name the unwrap fails "
            "(C02_breadth_first_search, C02_breadth_first_search_absent). "
            "The node-set variants (has_nodes, get_edges_for_nodes, get_in/out_edges_for_nodes) equal the corresponding "
            "filters of get_all_edges with NodeNotFound / WrongMethod as specified (C02_has_nodes, C02_*_for_nodes); the "
            "name<->position lookups are mutually inverse views of the node list (C02_name_position) and the name-keyed "
            "maps handed out by get_successors_map / get_predecessors_map list, duplicate-free, exactly the names joined by "
            "a stored group (C02_successors_map, C02_predecessors_map). INSERTION ORDER of parallel edges (deep14, "
            "Proofs/InsertionOrder.v): one accepted add_edge on a multigraph APPENDS the edge, in storage orientation, to the "
            "list stored between its own pair and leaves every other pair's list alone (C02_parallel_edges_insertion_order_step; "
            "single-edge graphs: KeepFirst keeps, KeepLast replaces, C02_single_edge_step; dropped self-loops, errors, "
            "add_node(s) change no list, C02_other_calls_keep_order; batches fold the step up to the first failure, "
            "C02_batch_insertion_order_step); for EVERY history from new(specs) the list get_edges returns for a pair is exactly "
            "the history's add_edge calls that returned Ok (not dropped) on that pair, in CALL ORDER (the first / last of them on "
            "a single-edge graph): C02_parallel_edges_insertion_order_history, C02_get_edges_history, C02_single_edge_kept_history; "
            "when every call returned Ok, and for new_from_nodes_and_edges, this is computed from the caller's edge list alone "
            "(C02_insertion_order_all_ok, C02_new_from_insertion_order, C02_new_from_get_edges). All of it is also tied to the code by the "
            "correspondence and recomputed from the public node/edge lists by an independent oracle on every history.",
    "note": "Axioms: none. BFS is still ALSO compared per case (model vs code, and the oracle's own reachability). "
            "Defect F3 (directed self-loop listed twice) repaired by a fix: commit.",
    "technique": "Coq proof: queries = functions of the abstract graph under the WF invariant + correspondence",
}

C09 = register(C09Prop(
    "C09", "c09", 1200, 15000,
    "histories of 2-10 mutation calls biased to parallel edges and self-loops (45% of edges re-hit a pair), uniformly "
    "weighted or unweighted, all 96 GraphSpecs, name order != insertion order; then counts, the six per-node degree "
    "functions for every name incl. an absent one, the six *_for_all_nodes maps, density, degree_centrality and the "
    "sparse adjacency matrix; every value compared with the Coq model; independently the handshake identities, "
    "degree = in + out, weighted forms, size/number_of_edges and the matrix entries/symmetry are evaluated on the "
    "implementation's own answers; non-trivial = >=2 kinds of mutation call and one success"))
C09.manifest = {
    "text": "Proved (unbounded, every reachable state): number_of_edges = size(false) = number of stored edges; "
            "get_node_degree = #edges leaving + #edges entering (a self-loop adds two), in/out degree = those counts on "
            "directed graphs, hence degree = in + out; handshake: degrees sum to 2m, in- and out-degrees each sum to m "
            "(count_partition over the duplicate-free node list); the weighted degree functions and the weighted "
            "handshake (sum = 2 x size(true)), density and degree_centrality as functions of (n, m); "
            "get_sparse_adjacency_matrix (single-edge graphs): a triplet (i,j,w) is emitted iff an edge is stored "
            "between the i-th and the j-th node (either orientation when undirected), w = its weight (1.0 when "
            "unweighted), and the matrix is symmetric when undirected (C09_matrix, C09_matrix_symmetric; needs the "
            "WF clause wf_emkeys: the edge store has duplicate-free keys, proved for every reachable state). The six "
            "*_for_all_nodes maps: keys = node names in node order, every entry (x, d) is the per-node function's answer "
            "Ok(Some d) (C09_degree_maps_values, any state), closed forms on a coherent state (C09_degree_maps_exact, "
            "C09_weighted_degree_map_exact).",
    "note": "Axioms: none. Not proved: float rounding of the weighted sums (modelled exactly; the implementation sums "
            "sorted so that the order cannot matter, compared at 1e-9). Each matrix position is emitted at most once "
            "(C09_matrix_positions_once), so summing repeated positions in the CSR conversion cannot change a value. "
            "Defects F2, F3, F4 repaired by fix: commits.",
    "technique": "Coq proof: counting lemmas over the edge multiset under WF + correspondence + identity oracle",
}


class C15Prop(HistProp):
    internal_kinds = {1010, 1011, 1012, 1013, 1014, 1015, 1017, 1018}


C15 = register(C15Prop(
    "C15", "c15", 700, 8000,
    "source graphs are products of histories (so of duplicate policies), all 96 GraphSpecs; then reverse, "
    "to_single_edges, set_all_edge_weights(w in {NaN,0,2}) and get_subgraph for several subsets incl. the empty set, "
    "all names and absent names; outcome, specs, node list, edge multiset and all twelve private indexes of every "
    "result are compared with the Coq model (derived graphs are rebuilt through the proved add_edge ladder), and the "
    "source is snapshotted again afterwards (unchanged); non-trivial = >=2 kinds of mutation call and one success"))
C15.manifest = {
    "text": "Proved (unbounded, every coherent = every reachable source graph, generic name type): get_subgraph(S) returns Ok "
            "with exactly the existing nodes named in S (original order, attributes) and a permutation of the stored edges "
            "with both ends in S (the internal unwrap is unreachable); set_all_edge_weights keeps nodes and edges and sets "
            "every weight; reverse (directed) keeps nodes and flips every edge keeping weights, attributes and parallel "
            "edges, and applying it twice restores node list and edge multiset; to_single_edges (multi) keeps nodes and "
            "stores one edge per group of parallel edges whose weight is the group's sum, with multi_edges cleared; every "
            "result is a reachable state (WF, so C01-C03 hold of it) with the expected specs; the wrong kind of graph is "
            "refused with WrongMethod. Built on the constructor lemma new_from_rebuild (admissible input => stored as is).",
    "note": "Axioms: none. 'Source unchanged' is immediate in the functional model and follows from &self in Rust (the "
            "check re-snapshots the source after the calls). Trusted: correspondence of model and code per generated case "
            "(outcome, specs, nodes, edge multiset and all twelve private indexes of each result).",
    "technique": "Coq proof: constructor rebuild lemma + WF invariant; correspondence via hook snapshot of every result",
}
C03.rule += ' 20% of the all-real-weight histories run with a dyadic weight scale applied inside the harness (weights x 2^k in, weight-valued observations / 2^k out, k in {-60,-3,40}; exact in binary64).'
C09.rule += ' 20% of the all-real-weight histories run with a dyadic weight scale applied inside the harness (weights x 2^k in, weight-valued observations / 2^k out, k in {-60,-3,40}; exact in binary64).'
C15.rule += ' 20% of the all-real-weight histories run with a dyadic weight scale applied inside the harness (weights x 2^k in, weight-valued observations / 2^k out, k in {-60,-3,40}; exact in binary64).'
C03.rule += ' CONSEQUENCE CLAUSE: at the end of every history single_source from every name (weighted when all weights are real, hop count otherwise), closeness_centrality and betweenness_centrality are called on the graph the history produced and compared (oracle-only observations 50xx) with distances / closeness / betweenness recomputed in exact rationals from get_all_nodes() / get_all_edges() alone (cheapest parallel edge, both directions when undirected).'
