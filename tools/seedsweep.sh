#!/bin/bash
# usage: seedsweep.sh <k> <seed-id>...   : clone k, each seed against its own property's quick check
k=$1; shift
W=/root/scratch/sw$k; R=/root/scratch/sw${k}_repo
rm -rf $W $R; mkdir -p $W
rsync -a --exclude work --exclude replays --exclude harness/target /verif/ $W/
git -C /repo worktree prune; git -C /repo worktree add --detach --force $R HEAD >/dev/null 2>&1 || { echo "cannot create $R"; exit 1; }
cd $W && sed -i "s#path = \"/repo\"#path = \"$R\"#" harness/Cargo.toml && git update-index --skip-worktree harness/Cargo.toml
for s in "$@"; do
  p=${s%%-*}
  if ! git -C $R apply --check /verif/seeded/$s/patch.diff 2>/dev/null; then echo "$s NOAPPLY"; continue; fi
  git -C $R apply /verif/seeded/$s/patch.diff
  t0=$(date +%s)
  out=$(./check $p 2>&1); rc=$?
  git -C $R checkout -- . ; git -C $R clean -fdq
  nv=$(echo "$out" | grep -c "^VIOLATION")
  nc=$(echo "$out" | grep "^VIOLATION" | grep -vc "no-failing-input-found")
  echo "$s rc=$rc violations=$nv concrete=$nc $(( $(date +%s)-t0 ))s $(echo "$out" | tail -1 | cut -c1-90)"
done
echo SWEEPDONE
