#!/usr/bin/env python3
"""seedtest.py <dir with patch<k>.diff demo<k>.rs meta<k>.json> <k> <seed-id> <prop> [<prop>...]
Confirms a seeded change in a scratch worktree (/tmp/seedchk): the demo passes without and fails
with the patch and the existing suite still passes; then applies it to /repo, runs ./check for
the given properties, undoes it, and stores everything under /verif/seeded/<seed-id>/."""
import json, os, shutil, subprocess, sys, time
src, k, sid, props = sys.argv[1], sys.argv[2], sys.argv[3], sys.argv[4:]
ROOT = os.environ.get("VERIF_ROOT", "/verif")
REPO = os.environ.get("SEED_REPO", "/repo")   # the tree the checks of ROOT are built from
W = os.environ.get("SEED_SCRATCH", "/tmp/seedchk")
env = dict(os.environ, CARGO_NET_OFFLINE="true")
def sh(cmd, cwd=None, timeout=3600):
    p = subprocess.run(cmd, shell=True, cwd=cwd, stdout=subprocess.PIPE, stderr=subprocess.STDOUT, text=True, env=env, timeout=timeout)
    return p.returncode, p.stdout
patch = os.path.join(src, "patch%s.diff" % k)
demo = os.path.join(src, "demo%s.rs" % k)
meta = json.load(open(os.path.join(src, "meta%s.json" % k)))
if not os.path.exists(W):
    sh("git -C /repo worktree add --detach %s HEAD" % W)
sh("git checkout -q --detach $(git -C /repo rev-parse HEAD) && git checkout -- . && git clean -fdq tests src", cwd=W)
res = {}
shutil.copy(demo, os.path.join(W, "tests", "seed_demo.rs"))
feat = " --features adjacency_matrix" if "adjacency_matrix" in open(demo).read() or "sparse" in open(demo).read() else ""
rc, out = sh("cargo test --offline --test seed_demo%s 2>&1 | tail -15" % feat, cwd=W)
res["demo_passes_without"] = ("test result: ok" in out)
rc, out = sh("git apply %s" % patch, cwd=W)
res["patch_applies"] = (rc == 0)
rc, out = sh("cargo test --offline --test seed_demo%s 2>&1 | tail -15" % feat, cwd=W)
res["demo_fails_with"] = ("FAILED" in out or "error" in out) and "test result: ok" not in out
os.remove(os.path.join(W, "tests", "seed_demo.rs"))
rc, out = sh("REPO_DIR=%s python3 %s/tools/baseline.py" % (W, ROOT), cwd=W)
res["suite_still_passes"] = (rc == 0)
res["suite_output"] = out.strip().splitlines()[-1] if out.strip() else ""
sh("git checkout -- . && git clean -fdq tests src", cwd=W)
# now against /repo with the real checks
rc, out = sh("git -C %s status --porcelain" % REPO)
if out.strip():
    print("ABORT: %s is not clean:" % REPO, out); sys.exit(2)
rc, out = sh("git -C %s apply %s" % (REPO, patch))
res["checks"] = {}
try:
    for p in props:
        t = time.time()
        rc, out = sh("./check %s" % p, cwd=ROOT, timeout=3000)
        viol = [l for l in out.splitlines() if l.startswith("VIOLATION")]
        res["checks"][p] = {"exit": rc, "violation_lines": viol[:3], "caught": rc == 1 and bool(viol), "wall_s": round(time.time() - t, 1),
                            "tail": out.strip().splitlines()[-1] if out.strip() else ""}
finally:
    sh("git -C %s checkout -- . && git -C %s clean -fdq src tests" % (REPO, REPO))
d = os.path.join(ROOT, "seeded", sid)
os.makedirs(d, exist_ok=True)
shutil.copy(patch, os.path.join(d, "patch.diff"))
shutil.copy(demo, os.path.join(d, "demo.rs"))
meta.update({"seed_id": sid, "confirmed_by_integrator": res, "ran": "tools/seedtest.py: demo without/with patch and the 207-test baseline in a scratch worktree; then ./check <prop> with the patch applied to /repo, then undone",
             "repo_head": subprocess.run("git -C /repo rev-parse --short HEAD", shell=True, stdout=subprocess.PIPE, text=True).stdout.strip()})
json.dump(meta, open(os.path.join(d, "meta.json"), "w"), indent=1)
print(json.dumps(res, indent=1))
