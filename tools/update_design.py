#!/usr/bin/env python3
"""refreshes the generated parts of DESIGN.md (seed table)"""
import os, re, subprocess
ROOT = os.path.dirname(os.path.dirname(os.path.abspath(__file__)))
tbl = subprocess.run(["python3", os.path.join(ROOT, "tools", "mkseedtable.py")], stdout=subprocess.PIPE, text=True).stdout
p = os.path.join(ROOT, "DESIGN.md")
s = open(p).read()
s = re.sub(r"<!-- SEEDTABLE-BEGIN -->.*?<!-- SEEDTABLE-END -->", "<!-- SEEDTABLE-BEGIN -->\n" + tbl + "<!-- SEEDTABLE-END -->", s, flags=re.S)
tbl2 = subprocess.run(["python3", os.path.join(ROOT, "tools", "mkthmtable.py")], stdout=subprocess.PIPE, text=True).stdout
s = re.sub(r"<!-- THMTABLE-BEGIN -->.*?<!-- THMTABLE-END -->", lambda m: "<!-- THMTABLE-BEGIN -->\n" + tbl2 + "<!-- THMTABLE-END -->", s, flags=re.S)
open(p, "w").write(s)
print("DESIGN.md seed table: %d rows" % (tbl.count("\n") - 2))
